/* bx_shim_fn.h -- shim functions that need the rendered struct definitions (included after types.h) */
#ifndef BX_SHIM_FN_H
#define BX_SHIM_FN_H
#ifndef BX_CAP
#define BX_CAP 128
#endif

static inline unsigned long bx_vec_particle_size(const bx_vec_particle *v) { return v->size; }
static inline _Bool bx_vec_particle_empty(const bx_vec_particle *v) { return v->size == 0; }
static inline struct particle *bx_vec_particle_at(const bx_vec_particle *v, unsigned long i) { return &v->data[i]; }
static inline struct particle *bx_vec_particle_back(const bx_vec_particle *v) { return &v->data[v->size - 1]; }
static inline struct particle *bx_vec_particle_front(const bx_vec_particle *v) { return &v->data[0]; }
static inline void bx_vec_particle_clear(bx_vec_particle *v) { v->size = 0; }   /* capacity survives clear() */

#ifdef BX_NATIVE
static inline void bx_vec_particle_push_back(bx_vec_particle *v, const struct particle *p)
{
  if (v->size == v->cap) {
    unsigned long nc = v->cap ? 2 * v->cap : 1;
    struct particle *nd = (struct particle *)malloc(nc * sizeof(struct particle));
    if (v->size) memcpy(nd, v->data, v->size * sizeof(struct particle));
    free(v->data);
    v->data = nd;
    v->cap = nc;
  }
  v->data[v->size++] = *p;
}
#elif defined(BX_VEC_REALLOC)
/* the standard's contract: push_back may reallocate; then every pointer/reference into the old buffer
   is invalid.  Capacity is left arbitrary so that every allocation history is covered at once. */
void *malloc(__CPROVER_size_t);
void free(void *);
static inline void bx_vec_particle_push_back(bx_vec_particle *v, const struct particle *p)
{
  struct particle copy = *p; /* p may point into the old buffer */
  if (v->size >= v->cap || nondet_bool()) {
    struct particle *nd = (struct particle *)malloc(BX_CAP * sizeof(struct particle));
    __CPROVER_assume(nd != 0);
#ifdef BX_VEC_COPY
    for (unsigned long i = 0; i < BX_CAP; i++) if (i < v->size) nd[i] = v->data[i];
#endif
    if (v->data != 0) free(v->data);
    v->data = nd;
    v->cap = BX_CAP;
  }
  v->data[v->size] = copy;
  v->size = v->size + 1;
}
/* used by callee stubs: k particles were appended by a callee; one of those push_backs may have reallocated.
   Contents of appended particles stay nondeterministic (what a caller may know about them comes from the
   callee's contract, not from here). */
static inline void bx_vec_particle_grow(bx_vec_particle *v, unsigned long k)
{
  if (k == 0) return;
  if (v->size + k > v->cap || nondet_bool()) {
    struct particle *nd = (struct particle *)malloc(BX_CAP * sizeof(struct particle));
    __CPROVER_assume(nd != 0);
    if (v->data != 0) free(v->data);
    v->data = nd;
    v->cap = BX_CAP;
  }
  v->size = v->size + k;
}
#else
static inline void bx_vec_particle_push_back(bx_vec_particle *v, const struct particle *p)
{
  v->data[v->size] = *p;
  v->size = v->size + 1;
}
#endif
#endif

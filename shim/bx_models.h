/* bx_models.h -- CBMC-side models (assumed contracts) of the deviate source and of libm/GSL.
 * Included only in CBMC queries (never natively).  Every __CPROVER_assume below is an axiom about an
 * external function; the list is reproduced in the evidence files as 'trusted_base'. */
#ifndef BX_MODELS_H
#define BX_MODELS_H
#ifndef BX_NATIVE

/* deviate source: ANY double strictly between 0 and 1 (the property's quantifier) */
#ifndef BX_CUSTOM_DRAW
double bx_draw(bx_prng *p)
{
  double bx_u;
  bx_u = nondet_double();
  __CPROVER_assume(bx_u > 0.0 && bx_u < 1.0);
  g_draws = g_draws + 1;
  return bx_u;
}
#endif

double __CPROVER_uninterpreted_log(double);
double __CPROVER_uninterpreted_sqrt(double);
double __CPROVER_uninterpreted_exp(double);
double __CPROVER_uninterpreted_cos(double);
double __CPROVER_uninterpreted_sin(double);
double __CPROVER_uninterpreted_tan(double);
double __CPROVER_uninterpreted_acos(double);
double __CPROVER_uninterpreted_asin(double);
double __CPROVER_uninterpreted_atan(double);
double __CPROVER_uninterpreted_atan2(double, double);
double __CPROVER_uninterpreted_pow(double, double);
double __CPROVER_uninterpreted_hypot(double, double);
double __CPROVER_uninterpreted_log10(double);
double __CPROVER_uninterpreted_floor(double);
double __CPROVER_uninterpreted_ceil(double);

double __CPROVER_uninterpreted_lngamma_abs(double, double);
static inline double bx_lngamma_abs(double g, double y) { return __CPROVER_uninterpreted_lngamma_abs(g, y); }
#ifdef BX_UF
/* relational mode: Re ln Gamma(g+iy) from GSL is the same uninterpreted function as the reference's alog(cabs(cgamma(.)));
   GSL is assumed to succeed (status 0) */
int bx_ext_gsl_sf_lngamma_complex_e(double zr, double zi, bx_gsl_sf_result *lnr, bx_gsl_sf_result *arg)
{
  lnr->val = __CPROVER_uninterpreted_lngamma_abs(zr, zi);
  return 0;
}
#endif
#ifdef BX_UF
/* relational mode: pure uninterpreted functions (equal arguments give equal results), no axioms needed */
double bx_log(double x) { return __CPROVER_uninterpreted_log(x); }
double bx_sqrt(double x) { return __CPROVER_uninterpreted_sqrt(x); }
double bx_exp(double x) { return __CPROVER_uninterpreted_exp(x); }
double bx_cos(double x) { return __CPROVER_uninterpreted_cos(x); }
double bx_sin(double x) { return __CPROVER_uninterpreted_sin(x); }
double bx_tan(double x) { return __CPROVER_uninterpreted_tan(x); }
double bx_acos(double x) { return __CPROVER_uninterpreted_acos(x); }
double bx_asin(double x) { return __CPROVER_uninterpreted_asin(x); }
double bx_atan(double x) { return __CPROVER_uninterpreted_atan(x); }
double bx_atan2(double y, double x) { return __CPROVER_uninterpreted_atan2(y, x); }
double bx_pow(double x, double y) { return __CPROVER_uninterpreted_pow(x, y); }
double bx_hypot(double x, double y) { return __CPROVER_uninterpreted_hypot(x, y); }
double bx_log10(double x) { return __CPROVER_uninterpreted_log10(x); }
double bx_floor(double x) { return __CPROVER_uninterpreted_floor(x); }
double bx_ceil(double x) { return __CPROVER_uninterpreted_ceil(x); }
#else
/* single-program mode: uninterpreted function + range axioms (textbook facts that glibc's results satisfy) */
double bx_log(double x)
{
  double r = __CPROVER_uninterpreted_log(x);
  /* AXIOM log-range: for finite x > 0, log x is finite and within [-745.2, 709.8] */
  __CPROVER_assume(!(x > 0.0 && x <= 1.7976931348623157e308) || (r >= -745.2 && r <= 709.8));
  /* AXIOM log-sign: log x < 0 on (0,1), log 1 = 0, log x > 0 for x > 1 */
  __CPROVER_assume(!(x > 0.0 && x < 1.0) || r < 0.0);
  __CPROVER_assume(x != 1.0 || r == 0.0);
  __CPROVER_assume(!(x > 1.0) || r > 0.0);
  /* AXIOM log-2: log 2 = 0.693147180559945... */
  __CPROVER_assume(x != 2.0 || (r > 0.69314718 && r < 0.69314719));
  /* AXIOM log-domain: log of a negative number or NaN is NaN */
  __CPROVER_assume(!(x < 0.0 || x != x) || r != r);
  return r;
}
double bx_sqrt(double x)
{
  double r = __CPROVER_uninterpreted_sqrt(x);
  /* AXIOM sqrt-range: for finite x >= 0 the root is finite, >= 0, and <= max(1,x) */
  __CPROVER_assume(!(x >= 0.0 && x <= 1.7976931348623157e308) || (r >= 0.0 && r <= (x < 1.0 ? 1.0 : x)));
  __CPROVER_assume(!(x > 0.0) || r > 0.0);
  __CPROVER_assume(!(x < 0.0 || x != x) || r != r);
  return r;
}
double bx_exp(double x)
{
  double r = __CPROVER_uninterpreted_exp(x);
  /* AXIOM exp-range: exp x >= 0, finite for x <= 709, exp 0 = 1 */
  __CPROVER_assume(x != x || r >= 0.0);
  __CPROVER_assume(!(x <= 709.0) || r <= 1.7976931348623157e308);
  __CPROVER_assume(!(x <= 0.0) || r <= 1.0);
  __CPROVER_assume(x == x || r != r);
  return r;
}
double bx_cos(double x)
{
  double r = __CPROVER_uninterpreted_cos(x);
  /* AXIOM cos-range: |cos x| <= 1 for finite x */
  __CPROVER_assume(!(x >= -1.7976931348623157e308 && x <= 1.7976931348623157e308) || (r >= -1.0 && r <= 1.0));
  __CPROVER_assume((x >= -1.7976931348623157e308 && x <= 1.7976931348623157e308) || r != r);
  return r;
}
double bx_sin(double x)
{
  double r = __CPROVER_uninterpreted_sin(x);
  /* AXIOM sin-range: |sin x| <= 1 for finite x */
  __CPROVER_assume(!(x >= -1.7976931348623157e308 && x <= 1.7976931348623157e308) || (r >= -1.0 && r <= 1.0));
  __CPROVER_assume((x >= -1.7976931348623157e308 && x <= 1.7976931348623157e308) || r != r);
  return r;
}
double bx_tan(double x) { return __CPROVER_uninterpreted_tan(x); }
double bx_acos(double x)
{
  double r = __CPROVER_uninterpreted_acos(x);
  /* AXIOM acos-range: acos x in [0, pi] for |x| <= 1, NaN otherwise */
  __CPROVER_assume(!(x >= -1.0 && x <= 1.0) || (r >= 0.0 && r <= 3.141592653589793));
  __CPROVER_assume((x >= -1.0 && x <= 1.0) || r != r);
  return r;
}
double bx_asin(double x)
{
  double r = __CPROVER_uninterpreted_asin(x);
  __CPROVER_assume(!(x >= -1.0 && x <= 1.0) || (r >= -1.5707963267948966 && r <= 1.5707963267948966));
  __CPROVER_assume((x >= -1.0 && x <= 1.0) || r != r);
  return r;
}
double bx_atan(double x)
{
  double r = __CPROVER_uninterpreted_atan(x);
  __CPROVER_assume(x != x || (r >= -1.5707963267948966 && r <= 1.5707963267948966));
  return r;
}
double bx_atan2(double y, double x)
{
  double r = __CPROVER_uninterpreted_atan2(y, x);
  __CPROVER_assume(x != x || y != y || (r >= -3.141592653589793 && r <= 3.141592653589793));
  return r;
}
double bx_pow(double x, double y) { return __CPROVER_uninterpreted_pow(x, y); }
double bx_hypot(double x, double y) { return __CPROVER_uninterpreted_hypot(x, y); }
double bx_log10(double x) { return __CPROVER_uninterpreted_log10(x); }
double bx_floor(double x) { return __CPROVER_uninterpreted_floor(x); }
double bx_ceil(double x) { return __CPROVER_uninterpreted_ceil(x); }
#endif

#endif
#endif

/* bx_shim.h -- trusted shims: the assumed contracts of everything the rendered code depends on
 * (std::vector<particle>, std::string views, the deviate source, libm, GSL).
 * Three build modes:
 *   default      : CBMC, IEEE arithmetic; libm = uninterpreted function + range axioms
 *   -DBX_UF      : CBMC, double + - * / are uninterpreted (relational obligations)
 *   -DBX_NATIVE  : gcc, real libm (extraction self-check, replay of the reference rendering)
 */
#ifndef BX_SHIM_H
#define BX_SHIM_H

typedef struct bx_prng_s { unsigned long idx; } bx_prng;
typedef struct bx_string_s { const char *s; unsigned long n; } bx_string;
struct particle;
typedef struct bx_vec_particle_s { struct particle *data; unsigned long size; unsigned long cap; } bx_vec_particle;
typedef struct { double val; double err; } bx_gsl_sf_result;
typedef struct { double (*function)(double, void *); void *params; } bx_gsl_function;
#define BX_SET_INT_MAX 8
typedef struct bx_set_int_s { int v[BX_SET_INT_MAX]; int n; } bx_set_int;

#define BX_GSL_SUCCESS 0
#define BX_GSL_ETOL 14
#define BX_GSL_CONTINUE (-2)
#define BX_GSL_FAILURE (-1)

#define BX_STR_LIT(x) ((bx_string){(x), sizeof(x) - 1})

extern int bx_exc;          /* an exception is in flight (throw -> set + return) */

/* ghost state (written by leaf contracts / stubs only) */
extern unsigned long g_draws;

#ifdef BX_NATIVE
#include <math.h>
#include <stdlib.h>
#include <string.h>
#define BX_NONDET_DOUBLE() 0.0
#else
double nondet_double(void);
int nondet_int(void);
_Bool nondet_bool(void);
unsigned long nondet_ulong(void);
#endif

/* ---------- deviate source: any double in the open interval (0,1) -------------------------- */
double bx_draw(bx_prng *p);

/* ---------- libm --------------------------------------------------------------------------- */
#ifdef BX_NATIVE
#define bx_log log
#define bx_sqrt sqrt
#define bx_exp exp
#define bx_cos cos
#define bx_sin sin
#define bx_tan tan
#define bx_acos acos
#define bx_asin asin
#define bx_atan atan
#define bx_atan2 atan2
#define bx_pow pow
#define bx_fabs fabs
#define bx_floor floor
#define bx_ceil ceil
#define bx_hypot hypot
#define bx_log10 log10
#define bx_isnan isnan
#define bx_isnormal isnormal
#define bx_isfinite isfinite
#define bx_isinf isinf
#else
double bx_log(double x);
double bx_sqrt(double x);
double bx_exp(double x);
double bx_cos(double x);
double bx_sin(double x);
double bx_tan(double x);
double bx_acos(double x);
double bx_asin(double x);
double bx_atan(double x);
double bx_atan2(double y, double x);
double bx_pow(double x, double y);
double bx_hypot(double x, double y);
double bx_log10(double x);
static inline double bx_fabs(double x) { return __CPROVER_fabs(x); }
static inline _Bool bx_isnan(double x) { return x != x; }
static inline _Bool bx_isinf(double x) { return __CPROVER_isinfd(x); }
static inline _Bool bx_isfinite(double x) { return __CPROVER_isfinited(x); }
static inline _Bool bx_isnormal(double x) { return __CPROVER_isnormald(x); }
double bx_floor(double x);
double bx_ceil(double x);
#endif
static inline int bx_iabs(int x) { return x < 0 ? -x : x; }
/* Fortran NINT: nearest integer, halves away from zero */
static inline int bx_nint(double x) { return x >= 0.0 ? (int)(x + 0.5) : (int)(x - 0.5); }
static inline int bx_imod(int a, int b) { return a % b; }
/* std::lround: nearest integer, halves away from zero = Fortran NINT */
#define bx_lround(x) ((long)bx_nint(x))
static inline double bx_fmax(double a, double b) { return a < b ? b : a; }   /* std::max */
static inline double bx_fmin(double a, double b) { return b < a ? b : a; }   /* std::min */
static inline int bx_imax(int a, int b) { return a < b ? b : a; }
static inline int bx_imin(int a, int b) { return b < a ? b : a; }
#ifdef BX_NATIVE
static inline double bx_numeric_limits_double_quiet_NaN(void) { return NAN; }
static inline double bx_numeric_limits_double_infinity(void) { return INFINITY; }
#else
static inline double bx_numeric_limits_double_quiet_NaN(void) { return 0.0 / 0.0; }
static inline double bx_numeric_limits_double_infinity(void) { return 1.0 / 0.0; }
#endif
static inline double bx_numeric_limits_double_epsilon(void) { return 2.220446049250313e-16; }
static inline double bx_numeric_limits_double_max(void) { return 1.7976931348623157e308; }
static inline double bx_numeric_limits_double_min(void) { return 2.2250738585072014e-308; }

/* ---------- arithmetic ---------------------------------------------------------------------- */
#ifdef BX_UF
double __CPROVER_uninterpreted_add(double, double);
double __CPROVER_uninterpreted_sub(double, double);
double __CPROVER_uninterpreted_mul(double, double);
double __CPROVER_uninterpreted_div(double, double);
double __CPROVER_uninterpreted_powi(double, int);
#define bx_add(a, b) __CPROVER_uninterpreted_add((a), (b))
#define bx_sub(a, b) __CPROVER_uninterpreted_sub((a), (b))
#define bx_mul(a, b) __CPROVER_uninterpreted_mul((a), (b))
#define bx_div(a, b) __CPROVER_uninterpreted_div((a), (b))
#define bx_uf_powi(a, n) __CPROVER_uninterpreted_powi((a), (n))
#endif
/* gsl_pow_N as GSL defines them (gsl_pow_int.h inline bodies) */
static inline double bx_powi(double x, int n)
{
  switch (n) {
  case 2: return x * x;
  case 3: return x * x * x;
  case 4: { double x2 = x * x; return x2 * x2; }
  case 5: { double x2 = x * x; return x2 * x2 * x; }
  case 6: { double x2 = x * x; return x2 * x2 * x2; }
  case 7: { double x3 = x * x * x; return x3 * x3 * x; }
  case 8: { double x2 = x * x; double x4 = x2 * x2; return x4 * x4; }
  case 9: { double x3 = x * x * x; return x3 * x3 * x3; }
  default: return x;
  }
}

/* ---------- GSL and porcelain helpers called from plumbing code (assumed contracts) ------------ */
int bx_ext_gsl_sf_lngamma_complex_e(double zr, double zi, bx_gsl_sf_result *lnr, bx_gsl_sf_result *arg);
double bx_ext_gsl_sf_gamma(double x);
void *bx_ext_gsl_set_error_handler_off(void);
void *bx_ext_gsl_set_error_handler(void *h);
int bx_ext_gsl_integration_qng(const bx_gsl_function *f, double a, double b, double epsabs, double epsrel,
                               double *result, double *abserr, unsigned long *neval);
const char *bx_ext_gsl_strerror(int);
int dbd_mode_from_legacy_modebb(int legacy_modebb);   /* bb_utils.cc lookup; result feeds messages only */

/* ---------- std::string (read-only views) ---------------------------------------------------- */
static inline unsigned long bx_string_size(const bx_string *s) { return s->n; }
static inline unsigned long bx_string_length(const bx_string *s) { return s->n; }
static inline _Bool bx_string_empty(const bx_string *s) { return s->n == 0; }
static inline void bx_string_clear(bx_string *s) { s->n = 0; s->s = ""; }
static inline bx_string bx_string_substr(const bx_string *s, unsigned long pos, unsigned long n)
{
  bx_string r;
  /* std::string::substr: pos > size() throws std::out_of_range */
  if (pos > s->n) { bx_exc = 1; r.s = ""; r.n = 0; return r; }
  r.s = s->s + pos;
  r.n = (n < s->n - pos) ? n : s->n - pos;
  return r;
}
/* std::string::find(const std::string&, pos = 0): first position of the substring, npos if absent */
static inline unsigned long bx_string_find(const bx_string *s, const bx_string *t)
{
  if (t->n > s->n) return (unsigned long)-1;
  for (unsigned long i = 0; i + t->n <= s->n; i++) {
    _Bool ok = 1;
    for (unsigned long j = 0; j < t->n; j++)
      if (s->s[i + j] != t->s[j]) { ok = 0; break; }
    if (ok) return i;
  }
  return (unsigned long)-1;
}
static inline _Bool bx_string_eq(const bx_string *a, const bx_string *b)
{
  if (a->n != b->n) return 0;
  for (unsigned long i = 0; i < a->n; i++)
    if (a->s[i] != b->s[i]) return 0;
  return 1;
}
static inline _Bool bx_string_ne(const bx_string *a, const bx_string *b) { return !bx_string_eq(a, b); }
#define bx_string_eq_lit(a, lit) bx_string_eq((a), &BX_STR_LIT(lit))
#define bx_string_ne_lit(a, lit) (!bx_string_eq((a), &BX_STR_LIT(lit)))
#define bx_string_assign_lit(a, lit) (*(a) = BX_STR_LIT(lit))
static inline void bx_string_assign(bx_string *a, const bx_string *b) { *a = *b; }

/* ---------- std::set<int> (small) ------------------------------------------------------------- */
static inline void bx_set_int_clear(bx_set_int *s) { s->n = 0; }
static inline unsigned long bx_set_int_size(const bx_set_int *s) { return (unsigned long)s->n; }
static inline _Bool bx_set_int_empty(const bx_set_int *s) { return s->n == 0; }
static inline unsigned long bx_set_int_count(const bx_set_int *s, int v)
{
  for (int i = 0; i < s->n && i < BX_SET_INT_MAX; i++)
    if (s->v[i] == v) return 1;
  return 0;
}

#endif

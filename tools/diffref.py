#!/usr/bin/env python3
"""diffref.py -- failing inputs for relational obligations: the REAL C++ routine against the reference Fortran routine
compiled by gcc (REAL promoted to 8 bytes), same scripted deviate sequence.

A refuted relational obligation (C01/C02) comes from uninterpreted arithmetic and has no concrete input.  This tool searches
one: it links /repo's own object code (native.build_real) with the compiled reference (refnative.py) and runs the routine
of the failed obligation on both sides for a range of seeds (and every tabulated level of a cascade); the first seed whose
events differ (particle count, codes up to the admissible e+/e- swap, times and momenta beyond 2e-5 relative, number of
deviates) is the failing input, replayable with  diffref.py <routine> <seed> [level].

usage: diffref.py survey [seeds]            all routines, JSON summary
       diffref.py find <routine> [seeds]    first differing (level, seed) of one routine
       diffref.py show <routine> <seed> [level]   print both events
"""
import json
import os
import re
import subprocess
import sys
sys.path.insert(0, os.path.dirname(os.path.abspath(__file__)))
import bx2c
import extract
import f77c
import native
import refnative

VERIF = extract.VERIF
WORK = os.path.join(VERIF, 'build', 'diffref')

DRIVER = r'''
#include <cstdio>
#include <cstdlib>
#include <cstring>
#include <cmath>
#include <string>
#include <vector>
#include <stdexcept>
#include <bxdecay0/i_random.h>
#include <bxdecay0/event.h>
#include <bxdecay0/particle.h>
%(includes)s
extern "C" {
  void vp_seed(unsigned long long s); extern unsigned long vp_ndraw;
  void vpgetev_(int *n, int *codes, double *pm, double *pt); void vpreset_(void);
%(fdecls)s
}
namespace bxdecay0 {
  dbd_mode_type dbd_mode_from_legacy_modebb(const legacy_modebb_type) { return DBDMODE_UNDEF; }
  std::string dbd_mode_description(const dbd_mode_type) { return ""; }
}
struct scripted : public bxdecay0::i_random {
  unsigned long long s; unsigned long ndraw = 0;
  void seed(unsigned long long x) { s = x * 2862933555777941757ULL + 3037000493ULL; ndraw = 0; }
  double operator()() override { s = s * 6364136223846793005ULL + 1442695040888963407ULL; ndraw++; return ((double)(s >> 11) + 0.5) / 9007199254740992.0; }
};
typedef void (*cn_t)(bxdecay0::i_random &, bxdecay0::event &, const double, double &);
typedef void (*cl_t)(bxdecay0::i_random &, bxdecay0::event &, const int);
struct rt { const char *name; int kind; cn_t cn; cl_t cl; void (*f)(); int nlev; int lev[40]; };
static rt RT[] = {
%(rows)s
};
struct part { int code; double t, px, py, pz; };
static bool close_(double a, double b) { double d = std::fabs(a - b), s = std::fmax(std::fabs(a), std::fabs(b)); return d <= 2e-5 * s || d <= 1e-9 || (a != a && b != b); }
static void canon(std::vector<part> & v) {
  // documented admissible difference: e+/e- order inside an internal pair
  for (size_t i = 0; i + 1 < v.size(); i++) if (v[i].code == 3 && v[i + 1].code == 2 && v[i].t == v[i + 1].t) { std::swap(v[i], v[i + 1]); i++; }
}
static int run(const rt & r, int lev, unsigned long long seed, bool show) {
  scripted g; g.seed(seed); bxdecay0::event ev; double tc = (seed %% 3) * 0.5, tdC = 0, tdF = 0; int exc = 0;
  try { if (r.kind == 0) r.cn(g, ev, tc, tdC); else r.cl(g, ev, lev); } catch (std::exception & e) { exc = 1; }
  std::vector<part> C, F;
  for (const auto & p : ev.get_particles()) C.push_back({(int)p.get_code(), p.get_time(), p.get_px(), p.get_py(), p.get_pz()});
  vp_seed(seed); vpreset_();
  if (r.kind == 0) ((void (*)(double *, double *))r.f)(&tc, &tdF); else ((void (*)(int *))r.f)(&lev);
  int n, codes[100]; double pm[300], pt[100]; vpgetev_(&n, codes, pm, pt);
  // the reference stores the delay after the previous particle, the port the accumulated time (documented in event.cc)
  double tacc = 0.0;
  for (int i = 0; i < n && i < 100; i++) { tacc += pt[i]; F.push_back({codes[i], tacc, pm[3 * i], pm[3 * i + 1], pm[3 * i + 2]}); }
  canon(C); canon(F);
  bool ok = !exc && C.size() == F.size() && g.ndraw == vp_ndraw && close_(tdC, tdF);
  for (size_t i = 0; ok && i < C.size(); i++)
    {
      // momenta: component differences against the size of the momentum (the reference's pi is 3.1415927)
      double nrm = std::sqrt(F[i].px * F[i].px + F[i].py * F[i].py + F[i].pz * F[i].pz), tol = 2e-5 * nrm + 1e-12;
      ok = C[i].code == F[i].code && close_(C[i].t, F[i].t) && std::fabs(C[i].px - F[i].px) <= tol && std::fabs(C[i].py - F[i].py) <= tol && std::fabs(C[i].pz - F[i].pz) <= tol;
    }
  if (show || !ok) {
    if (show) {
      std::printf("%%s level %%d seed %%llu: C++ %%zu particles, %%lu deviates, exception %%d, td %%.12g | reference %%zu particles, %%lu deviates, td %%.12g\n", r.name, lev, seed, C.size(), g.ndraw, exc, tdC, F.size(), vp_ndraw, tdF);
      for (size_t i = 0; i < std::max(C.size(), F.size()); i++) {
        if (i < C.size()) std::printf("  C++ %%2d t=%%.9g p=(%%.9g, %%.9g, %%.9g)", C[i].code, C[i].t, C[i].px, C[i].py, C[i].pz); else std::printf("  C++ --");
        if (i < F.size()) std::printf("   | ref %%2d t=%%.9g p=(%%.9g, %%.9g, %%.9g)\n", F[i].code, F[i].t, F[i].px, F[i].py, F[i].pz); else std::printf("   | ref --\n");
      }
    }
  }
  return ok ? 0 : 1;
}
int main(int argc, char **argv) {
  int nrt = sizeof(RT) / sizeof(RT[0]);
  std::string cmd = argc > 1 ? argv[1] : "survey";
  if (cmd == "show" && argc >= 4) {
    for (int r = 0; r < nrt; r++) if (!strcasecmp(RT[r].name, argv[2])) { int lev = argc > 4 ? atoi(argv[4]) : RT[r].lev[0]; return run(RT[r], lev, strtoull(argv[3], 0, 10), true); }
    return 2;
  }
  int seeds = argc > 2 && cmd == "survey" ? atoi(argv[2]) : (argc > 3 ? atoi(argv[3]) : 200);
  int bad = 0;
  for (int r = 0; r < nrt; r++) {
    if (cmd == "find" && strcasecmp(RT[r].name, argv[2])) continue;
    int nl = RT[r].kind ? RT[r].nlev : 1; int rb = 0; long runs = 0;
    for (int li = 0; li < nl; li++) for (int s = 1; s <= seeds; s++) {
      runs++;
      if (run(RT[r], RT[r].lev[li], (unsigned long long)s * 1000003ULL + r, false)) { if (rb < 5) std::printf("DIFF %%s level %%d seed %%llu\n", RT[r].name, RT[r].lev[li], (unsigned long long)s * 1000003ULL + r); rb++; }
    }
    std::printf("ROUTINE %%s runs=%%ld differing=%%d\n", RT[r].name, runs, rb);
    bad += rb ? 1 : 0;
  }
  return bad ? 1 : 0;
}
'''


def build():
    os.makedirs(WORK, exist_ok=True)
    exe0 = native.build_real(flags=('-O1',))
    odir = os.path.dirname(exe0)
    objs = [os.path.join(odir, f) for f in sorted(os.listdir(odir)) if f.endswith('.o') and not f.startswith('driver.cc')]
    prog = f77c.Program(refnative.REF)
    # Fortran object + support (scripted rnd1, cgamma, divdif)
    os.makedirs(refnative.WORK, exist_ok=True)
    text = open(refnative.REF, errors='replace').read()
    open(os.path.join(WORK, 'ref.for'), 'w').write(refnative.strip_programs(text) + refnative.ACCESSORS)
    db = extract.extract()
    divdif = bx2c.Printer(db['types'], bx2c.Opts()).function(db['funcs']['decay0_divdif'])
    sup = ['#define BX_NATIVE 1', '#include "bx_shim.h"', refnative.SUPPORT.replace('double bx_draw(bx_prng *p) { return vp_next(); }\nbx_prng *prng_ = 0;', ''), 'int bx_exc_ref;',
           divdif.replace('bx_exc', 'bx_exc_ref').replace('decay0_divdif', 'vp_divdif'),
           'double divdif_(double *f, double *a, int *nn, double *x, int *mm) { return vp_divdif(f, a, *nn, *x, *mm); }']
    open(os.path.join(WORK, 'support.c'), 'w').write('\n'.join(sup) + '\n')
    hdrs = {f[:-2].lower(): f[:-2] for f in os.listdir(os.path.join(bx2c.REPO, 'bxdecay0')) if f.endswith('.h')}
    rows, incs, fdecls = [], ['#include <bxdecay0/bb_utils.h>'], []
    for n in sorted(prog.units):
        u = prog.units[n]
        if u.kind != 'subroutine' or n.lower() not in hdrs:
            continue
        cxx = hdrs[n.lower()]
        args = [a.lower() for a in u.args]
        if args == ['tcnuc', 'tdnuc']:
            rows.append('  {"%s", 0, bxdecay0::%s, 0, (void (*)())%s_, 0, {0}}' % (cxx, cxx, n.lower()))
            fdecls.append('  void %s_(double *, double *);' % n.lower())
        elif args == ['levelkev'] and n.lower().endswith('low'):
            lv = sorted(set(int(x) for x in re.findall(r'levelkev\s*\.eq\.\s*(\d+)', '\n'.join(t for l, t, k in u.stmts))))
            rows.append('  {"%s", 1, 0, bxdecay0::%s, (void (*)())%s_, %d, {%s}}' % (cxx, cxx, n.lower(), len(lv), ', '.join(str(v) for v in lv) or '0'))
            fdecls.append('  void %s_(int *);' % n.lower())
        else:
            continue
        incs.append('#include <bxdecay0/%s.h>' % cxx)
    open(os.path.join(WORK, 'driver.cc'), 'w').write(DRIVER % {'includes': '\n'.join(incs), 'fdecls': '\n'.join(fdecls), 'rows': ',\n'.join(rows)})
    cmds = [['gcc', '-c', '-x', 'f77', '-std=legacy', '-w', '-O0', '-fdefault-real-8', '-fdefault-double-8', '-ffp-contract=off', '-fno-range-check', '-ffixed-line-length-none', '-fd-lines-as-comments', '-finit-local-zero', 'ref.for', '-o', 'ref_f.o'],
            ['gcc', '-c', '-std=gnu11', '-w', '-O0', '-ffp-contract=off', '-I', os.path.join(VERIF, 'shim'), 'support.c', '-o', 'support.o'],
            ['g++', '-std=c++11', '-O1', '-w', '-c', '-I' + bx2c.REPO, 'driver.cc', '-o', 'driver.o'],
            ['g++', '-o', 'diffref', 'driver.o', 'support.o', 'ref_f.o'] + objs + ['-lgfortran', '-lgsl', '-lgslcblas', '-lm']]
    for c in cmds:
        p = subprocess.run(c, cwd=WORK, capture_output=True, text=True)
        if p.returncode != 0:
            raise RuntimeError('diffref build failed: %s\n%s' % (' '.join(c)[:200], p.stderr[-3000:]))
    return os.path.join(WORK, 'diffref'), len(rows)


def find(routine, seeds=2000):
    """-> None or {'routine', 'level', 'seed', 'shown'}"""
    exe, n = build()
    p = subprocess.run([exe, 'find', routine, str(seeds)], capture_output=True, text=True, timeout=600)
    for ln in p.stdout.split('\n'):
        m = re.match(r'^DIFF (\S+) level (\d+) seed (\d+)', ln)
        if m:
            s = subprocess.run([exe, 'show', m.group(1), m.group(3), m.group(2)], capture_output=True, text=True, timeout=600)
            return {'routine': m.group(1), 'level': int(m.group(2)), 'seed': int(m.group(3)), 'events': s.stdout.split('\n')[:60],
                    'replay': 'python3 tools/diffref.py show %s %s %s' % (m.group(1), m.group(3), m.group(2))}
    return None


def main():
    cmd = sys.argv[1] if len(sys.argv) > 1 else 'survey'
    exe, n = build()
    if cmd == 'survey':
        seeds = sys.argv[2] if len(sys.argv) > 2 else '200'
        p = subprocess.run([exe, 'survey', seeds], capture_output=True, text=True, timeout=7200)
        rows = [l for l in p.stdout.split('\n') if l.startswith('ROUTINE')]
        differ = [l for l in rows if not l.endswith('differing=0')]
        print(json.dumps({'routines': len(rows), 'seeds': int(seeds), 'differ': differ, 'first': [l for l in p.stdout.split('\n') if l.startswith('DIFF')][:60]}, indent=1))
        return 0
    p = subprocess.run([exe] + sys.argv[1:])
    return p.returncode


if __name__ == '__main__':
    sys.exit(main())

#!/usr/bin/env python3
"""regenerates MANIFEST.json from the table below (kept in one place so that it stays valid)"""
import json, os
VERIF = os.path.dirname(os.path.dirname(os.path.abspath(__file__)))
TECH = 'CBMC code contracts on C rendered mechanically from the real C++ (bx2c): per-function assume/guarantee obligations, label-machine invariants for cycles'
CLAIMED = {
 'C01': ('proof', 'For every background routine that exists in the reference and every emission kernel: the C++ routine simulates the reference routine (rendered from the .for on each run) cut point by cut point: same successor, same deviates consumed, same emission calls with equal arguments, related variables equal; for all deviates and rejection-loop trajectories.', '3 C01',
         'also related: the leaf particle(), the beta samplers and their shape functions, fermi, tgold, the plog69 table; Co60 and Bi207 are related with their angular-correlation blocks removed on both sides (index captures, momentum reads and rewrites; re-sampling loop asserted unreachable): the blocks themselves are NOT decided; genbbsub background chaining: C05 obligations instead; f77c is cross-checked natively against gcc\'s Fortran front end on every run (tools/refnative.py: 142 units agree), the simulation meta-lemma is trusted; libm/GSL special functions are uninterpreted on both sides'),
 'C02': ('proof', 'Same simulation proof for decay0_bb against bb (one query per cut point and legacy mode), the 25 fe*_mod integrands, dshelp1/2, the 42 daughter cascades (*low) and the alpha-chain routines; DBD level/Q table of genbbsub related to GENBBsub by the C06 obligations.', '3 C02',
         'gauss (GSL QNG vs CERNLIB D103) and dgmlt1/2 are abstract effects on both sides, so the numerical value of the reported event ratio is NOT decided; NaN guard of decay0_bb assumed silent; Ru100low/Se76low/Sm150low are related with their angular-correlation blocks removed on both sides: the blocks themselves are NOT decided'),
 'C05': ('proof', 'For each of the 69 published background names: genbbsub initialises, and the generate phase calls exactly the documented scheme routine(s) once, in order, with the daughter delayed by its decay time (ghost call log, all deviates); README lists, .lis files and genbbsub name tests compared as sets.', '3 C05',
         'scheme routines abstracted to "log id + append particles"; bb_utils.cc list parser and the CLI are not reachable'),
 'C06': ('proof', 'For each of the 51 isotopes (and unknown names) and ALL int levels and modes: genbbsub init accepts exactly when the reference GENBBsub (rendered per name by f77c) accepts and sets Qbb/Zdbb/Adbb/EK/levelE/itrans02 identically; level table cross-checked with README Appendix 1; 4-beta, sign and mode-range rules asserted directly.', '3 C06',
         'the rendered GENBBsub initialisation is cross-checked against the compiled reference on all 51 x 24 x 24 configurations on every run (tools/refgenbb.py); gA routing, energy-window validation and label<->mode bijection (decay0_generator.cc, bb_utils.cc) are STL/iostream code: not covered'),
 'C16': ('proof', 'Ground obligations on the real initialisers of the 6- and 8-point Gauss-Legendre rules of dgmlt1/dgmlt2: all moments up to degree 2n-1 to 1e-13, node antisymmetry, weight symmetry and positivity (bit-precise, no symbolic input). Summation loops of dgmlt1/dgmlt2 under a label-machine contract (contracts/safety.contract, c16 clauses; all NI <= 4096, both orders, all limits, no unwinding): panel k / node i is evaluated at the term R*t_i + RA + (k-1)*D and carried with the weight w_i of the same i.', '3 C16',
         'tables and pairing only: the accumulation S += V*F and the final R*S are not decided; products are uninterpreted terms in the pairing clauses; exactness on arbitrary intervals is the affine change of variable (assumed); QNG, Simpson, golden section, divided differences, rotate_zyz, Fermi function are not decided'),
 'C03': ('proof', 'Every path of every *low cascade releases the tabulated level energy (nominal accounting defined by the L1/L2 emission contracts) within 3 keV: one CBMC query per routine over all deviates and all tabulated levels. decay0_bb under contract (contracts/bb.contract): for every legacy mode the emitted energies are computed from the budget e0 = Q - Elevel [- 4me | - EK - 2me | - 2EK] and the window [ebb1, ebb2] in the shape that the IEEE lemmas W0/W2/W9/W10/W11/W20 turn into the budget/window inequality.', '3 C03',
         'nominal vs booked energy gap bounded per call by the L2 lemmas; lemmas W2, W20 thorough-tier only (assumed otherwise); momentum -> kinetic energy is a real-arithmetic lemma (assumed); toallevents >= 1 / monotone in the window is NOT claimed (property of the numerical integrators)'),
 'C04': ('proof', 'For all deviates: every call-site precondition of every emission primitive holds in all 123 L3 routines (energies >= 0 and above thresholds, finite times), >= 1 and <= 60 particles per routine, decay time >= creation time, no exception, every cycle consumes a deviate.', '3 C04',
         'also: the exit clauses of the decay0_bb contract (2, 3 or 4 particles of the right species, prompt isotropic emission calls) for every legacy mode; time order rests on the leaf contract; bounded number of deviates is almost-sure only and not claimed'),
 'C07': ('proof', 'Hidden state and frame: DFCC assigns obligations on the L0-L2 kernels (nothing but the event, out-parameters and ghost state is written); for every isotope and all int levels/modes, genbbsub initialisation of two arbitrary different parameter blocks ends in the same state (no field left over from an earlier configuration is read); AST frame scan of every rendered function (assignment targets, write-once statics).', '3 C07',
         'pointer/reference into the particle vector across an emission is claimed under C08; other instances, reset/re-init, shoot() are porcelain (not covered); the AST scan is a static fact, not a CBMC obligation'),
 'C08': ('proof', 'CBMC bounds/pointer/overflow/conversion/division checks on every rendered L3 routine body for all deviates, with std::vector modelled as "any push_back may reallocate" so that a pointer kept across an emission is a failed obligation; decay0_bb under contract: every spthe1/spthe2 index inside the 4300-entry tables and every double->int conversion defined, for every mode, window and deviate sequence (loop invariants, no unwinding).', '3 C08',
         'uninitialised reads not covered; decay0_bb: deviate*x abstracted to [0,x], nonlinear products uninterpreted (sound over-approximations); dgmlt1/dgmlt2 under contracts/safety.contract (NI <= 4096, callback frame assumed); decay0_divdif decided only for its single call site NN=48, MM=2 by unwinding 14 with unwinding assertions (bounded stand-in, complete for these sizes, not counted as an unbounded proof); genbbsub body not under a safety contract'),
}
NA = {
 '_C01': 'not built yet: relational proof against the Fortran reference (DESIGN 2.5) is the next build step',
 '_C02': 'not built yet: relational proof against the Fortran reference (DESIGN 2.5)',
 '_C05': 'not built yet: genbbsub dispatch call-log obligations (DESIGN 3 C05)',
 '_C06': 'not built yet: genbbsub init obligations (DESIGN 3 C06)',
 '_C07': 'not built yet: frame / non-interference obligations (DESIGN 3 C07)',
 'C09': 'state machine of decay0_generator: std::string/shared_ptr/pimpl members and exceptions as protocol; CBMC cannot parse the TU and a C rendering would verify a hand-written model of libstdc++, not the code',
 'C10': 'MDL operation: _rotate_event_ iterates a std::set<int> (red-black tree iterators) and set(config) builds std::string labels; bx2c cannot render them without modelling libstdc++ containers, and the angular facts (norm preserved, direction inside the cone) need trigonometry over reals that no installed back end decides',
 'C11': 'iostream text formatting/parsing and ifstream roll-over: no contract over CBMC\'s C subset can express text<->double round trips without modelling iostream',
 'C12': 'property over thread schedules; DFCC contracts are sequential and bounded concurrency checking is a different technique family',
 'C13': 'process-level behaviour of bxdecay0-run (argv, files, kill points): no function contract reaches it',
 'C14': 'gA sampler: std::vector tables behind a pimpl filled by ifstream parsing; interpolation inequalities over symbolic tables (nonlinear double arithmetic) are undecidable for the installed back ends',
 'C15': 'robustness of iostream/std::string loaders for all byte strings: a parsing property with no C-subset rendering',
 '_C16': 'not built yet: quadrature table moment obligations (DESIGN 3 C16)',
 'C17': 'Geant4 classes are not present offline; C++ with inheritance/messengers, outside the C subset',
}
def main():
    checks = []
    for pid, (cat, text, ref, note) in sorted(CLAIMED.items()):
        checks.append({'property_id': pid, 'quick_cmd': './check %s quick' % pid, 'thorough_cmd': './check %s thorough' % pid,
                       'evidence_file': 'evidence/%s.json' % pid, 'replay_cmd_template': './check replay {path}',
                       'engine': 'cbmc-contracts', 'level_claimed': {'category': cat, 'text': text, 'design_ref': 'DESIGN.md section ' + ref},
                       'level_note': note, 'technique': TECH})
    m = {'version': 1, 'setup_cmd': './check setup',
         'hooks': {'guard': 'BXDECAY0_VERIF', 'enable': 'no source hooks: the checks read /repo\'s working tree through clang\'s AST and compile it natively for replay; nothing is built with the guard', 'baseline_off_cmd': 'cmake -G Ninja -S /repo -B /repo/_build >/dev/null && cmake --build /repo/_build -j16 && ctest --test-dir /repo/_build -j8 --timeout 900', 'source_commits': [], 'add_only': True},
         'engines': [{'name': 'cbmc-contracts', 'path': 'tools/check.py', 'serves_properties': sorted(CLAIMED), 'kind_free_text': 'bx2c (clang AST -> C) + contracts/*.spec + obligation generator + CBMC 6.11 (CaDiCaL), native ASan replay'}],
         'checks': checks,
         'notes': 'fix: commits in /repo are recorded as fixed: lines in known_findings.txt; known: lines list recorded defects.',
         'not_applicable': [{'property_id': k, 'reason': v} for k, v in sorted(NA.items()) if k not in CLAIMED and not k.startswith('_')]}
    json.dump(m, open(os.path.join(VERIF, 'MANIFEST.json'), 'w'), indent=1)
main()

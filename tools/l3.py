#!/usr/bin/env python3
"""l3.py -- single-program obligations for the L3 routines (78 nuclide routines, 45 *low cascades).

For each routine one query (DAG routines) or one query per cut point (routines with a cycle):
the real rendered body runs against assume/guarantee stubs of its L1/L2 callees; the assertions are
  C04  every callee precondition at every call site; >= 1 particle; <= NMAX particles; time order;
       tdnuc >= tcnuc; no exception; progress (>= 1 deviate)
  C03  (*low) nominal energy released == level energy within 3 keV on every path
  C08  CBMC's instrumented safety checks on the body (bounds, pointers incl. freed vector storage,
       overflow, conversions, division by zero)
"""
import os, sys, re, copy
sys.path.insert(0, os.path.dirname(os.path.abspath(__file__)))
import bx2c, extract, segments, oblig

NMAX_DEFAULT = 60


def routine_kind(f):
    ps = [(nm, t) for (pre, nm, t, isref) in f.params]
    ts = [bx2c.strip_cv(t) for nm, t in ps]
    if len(ps) == 4 and 'i_random' in ts[0] and 'event' in ts[1] and ts[2] == 'double' and ts[3].replace(' ', '') == 'double&':
        return 'nuclide'
    if len(ps) == 3 and 'i_random' in ts[0] and 'event' in ts[1] and ts[2] == 'int':
        return 'low'
    return None


def l3_routines(db):
    out = {}
    for n, f in db['funcs'].items():
        if f.is_method:
            continue
        k = routine_kind(f)
        if k:
            out[n] = k
    return out


def number_sites(body, callees):
    """deep copy of body where every statement-level call to one of `callees` is preceded by `bx_site = k;`.
    Returns (new body, {site name 'callee#ordinal': k}, {k: printable call text})"""
    import copy
    body = copy.deepcopy(body)
    sites = {}
    texts = {}
    counts = {}

    def mark(s):
        e = s.e
        while e.k == 'paren':
            e = e.a
        if e.k == 'call' and isinstance(e.a, bx2c.E) and e.a.k == 'fn' and e.a.name in callees:
            c = e.a.name
            counts[c] = counts.get(c, 0) + 1
            k = len(sites) + 1
            nm = '%s#%d' % (c, counts[c])
            sites[nm] = k
            texts[k] = bx2c.P(e, bx2c.Opts())[:200]
            return bx2c.S('multi', items=[bx2c.S('raw', text='bx_site = %d; if (bx_known_site(%d)) bx_vis = 1;' % (k, k)), s])
        return s

    def rec(s):
        if s.kind in ('block', 'multi'):
            s.items = [rec(x) for x in s.items]
            return s
        if s.kind == 'expr':
            return mark(s)
        for a in ('then', 'els', 'stmt', 'body'):
            y = getattr(s, a, None)
            if isinstance(y, bx2c.S):
                setattr(s, a, rec(y))
        return s
    return rec(body), sites, texts


EVENT_INIT_LIGHT = '''
  struct event ev;
  ev._particles_.data = 0; ev._particles_.size = 0; ev._particles_.cap = 0;
  g_np = nondet_ulong(); __CPROVER_assume(g_np <= 40);
'''

EVENT_INIT_VEC = '''
  struct event ev;
  ev._particles_.cap = BX_CAP;
  ev._particles_.data = (struct particle *)malloc(BX_CAP * sizeof(struct particle));
  __CPROVER_assume(ev._particles_.data != 0);
  ev._particles_.size = nondet_ulong(); __CPROVER_assume(ev._particles_.size <= 3);
  g_np = ev._particles_.size;
'''


def build_query(db, contracts, consts, name, kind, what='c04', levels=None, known_sites=()):
    """returns dict(c_text, entry, meta) for routine `name`.
    what = 'c04' : call-site preconditions, particle count, draws, exception freedom, tdnuc >= tcnuc, + CBMC safety checks (C08)
           'c03' : nominal-energy closure of a *low cascade (aspect enom only; safety checks belong to the c04 query)"""
    f = db['funcs'][name]
    T = db['types']
    aspects = ('count', 'draws') if what == 'c04' else ('enom',)
    stubs, inl, missing = oblig.closure_for(db, contracts, name)
    if missing:
        raise bx2c.Unsupported('%s calls %s which has neither a contract nor an inlinable body' % (name, ', '.join(missing)))
    vec = oblig.uses_vector(db, name, inl)
    mode = 'vec' if vec else 'light'
    if vec and what != 'c04':
        aspects = aspects + ('count',)
    mt = set()  # stubs never throw; inlined bodies may
    for n in inl:
        if db['funcs'][n].throws:
            mt.add(n)
    parts = [oblig.prelude(db, '#define BX_VEC_REALLOC 1\n#define BX_CAP 64' if vec else '')]
    import copy
    f2 = copy.copy(f)
    f2.body, sites, site_text = number_sites(f.body, set(stubs))
    ks = sorted(sites[s] for s in known_sites if s in sites)
    parts.append('int bx_site; int bx_vis;\nstatic inline int bx_known_site(int k) { return %s; }' % (' || '.join('k == %d' % k for k in ks) if ks else '0'))
    for s in stubs:
        ex = {nm: k for nm, k in sites.items() if k in ks and nm.startswith(s + '#')}
        parts.append(oblig.stub_text(db, contracts[s], consts, mode, aspects, excl_sites=ex))
    for n in inl:
        parts.append(bx2c.Printer(T, bx2c.Opts(), maythrow=mt).function(db['funcs'][n]))
    parts.append(bx2c.Printer(T, bx2c.Opts(), maythrow=mt).function(f2))
    H = ['void harness(void)', '{', '  bx_prng rng; rng.idx = 0; bx_site = 0; bx_vis = 0;']
    H.append(EVENT_INIT_VEC if vec else EVENT_INIT_LIGHT)
    H.append('  ev._time_ = nondet_double(); ev._generator_.s = ""; ev._generator_.n = 0;')
    H.append('  bx_exc = 0; g_draws = 0;')
    H.append('  g_enom = 0.0; g_evis = 0.0; g_tlast = 0.0;')
    H.append('  const unsigned long np0 = g_np;')
    pnames = [nm for (pre, nm, t, isref) in f.params]
    lv = None
    if kind == 'nuclide':
        H.append('  double tcnuc = nondet_double(); __CPROVER_assume(tcnuc >= 0.0 && tcnuc <= 1.0e20);')
        H.append('  double tdnuc = nondet_double();')
        H.append('  %s(&rng, &ev, tcnuc, &tdnuc);' % name)
        if what == 'c04':
            H.append('  __CPROVER_assert(!bx_exc, "C04 %s: no exception on any path");' % name)
            H.append('  __CPROVER_assert(g_np >= np0 + 1, "C04 %s: at least one particle");' % name)
            H.append('  __CPROVER_assert(g_np <= np0 + %d, "C04 %s: at most %d particles");' % (NMAX_DEFAULT, name, NMAX_DEFAULT))
            H.append('  __CPROVER_assert(tdnuc >= tcnuc, "C04 %s: decay time not before creation time");' % name)
            H.append('  __CPROVER_assert(g_draws >= 1, "C04 %s: consumes at least one deviate");' % name)
    else:
        lv = levels if levels is not None else oblig.level_literals(f, pnames[2])
        if not lv:
            raise bx2c.Unsupported('no level literals found in ' + name)
        H.append('  int level = nondet_int();')
        H.append('  __CPROVER_assume(%s);' % ' || '.join('level == %d' % v for v in lv))
        H.append('  %s(&rng, &ev, level);' % name)
        if what == 'c04':
            H.append('  __CPROVER_assert(!bx_exc, "C04 %s: no exception for a tabulated level");' % name)
            H.append('  __CPROVER_assert(g_np <= np0 + %d, "C04 %s: at most %d particles");' % (NMAX_DEFAULT, name, NMAX_DEFAULT))
            H.append('  __CPROVER_assert(level == 0 || g_np >= np0 + 1, "C04 %s: an excited level emits at least one particle");' % name)
        else:
            H.append('  __CPROVER_assert(bx_vis || (g_enom - (double)level / 1000.0 <= 3.0e-3 && g_enom - (double)level / 1000.0 >= -3.0e-3), '
                     '"C03 %s: cascade releases the level energy within 3 keV on every path");' % name)
            if ks:
                H.append('  __CPROVER_assert(!bx_vis || (g_enom - (double)level / 1000.0 <= 3.0e-3 && g_enom - (double)level / 1000.0 >= -3.0e-3), '
                         '"C03 %s: cascade releases the level energy within 3 keV on paths through %s");' % (name, ','.join(sorted(s for s in known_sites if s in sites))))
    if vec and 'count' in aspects:
        H.append('  __CPROVER_assert(ev._particles_.size == g_np, "C04 %s: ghost particle count mirrors the vector");' % name)
    H.append('  __CPROVER_assert(0, "canary %s: harness end is reachable (must be refuted)");' % name)
    H.append('}')
    parts.append('\n'.join(H))
    meta = {'function': name, 'kind': kind, 'what': what, 'stubs': stubs, 'inlined': inl, 'mode': mode, 'levels': lv,
            'aspects': list(aspects), 'sites': {v: (k, site_text[v]) for k, v in sites.items()}}
    return {'c': '\n\n'.join(parts) + '\n', 'entry': 'harness', 'meta': meta}


# ----------------------------------------------------------------------------------------------
# routines with a cycle: label-machine segments with an inductive invariant at every cut point
# ----------------------------------------------------------------------------------------------

def havoc_local(T, t, name, vec):
    """statements that give hoisted local `name` of C++ type t an arbitrary value"""
    tt = t.strip()
    isref = T.is_ref(tt)
    base = bx2c.strip_cv(tt.replace('&', '').replace('*', '').strip()).replace('bxdecay0::', '')
    isptr = tt.endswith('*') or isref
    if base == 'particle' and isptr:
        s = ['  { unsigned long bx_i = nondet_ulong(); __CPROVER_assume(bx_i < ev._particles_.size);']
        if isref:
            s.append('    %s = &ev._particles_.data[bx_i]; }' % name)
        else:
            s.append('    %s = nondet_bool() ? &ev._particles_.data[bx_i] : (struct particle *)0; }' % name)
        return s, ('(%s%s == (struct particle *)0 || ' % ('0 && ' if isref else '', name) +
                   '(__CPROVER_same_object(%s, ev._particles_.data) && '
                   '__CPROVER_POINTER_OFFSET(%s) %% sizeof(struct particle) == 0 && '
                   '__CPROVER_POINTER_OFFSET(%s) / sizeof(struct particle) < ev._particles_.size))' % (name, name, name))
    if isptr:
        raise bx2c.Unsupported('cannot havoc pointer/reference local %s of type %s' % (name, t))
    m = re.match(r'^(.*?)\[(\d+)\]$', tt)
    if m:
        c = T.c(m.group(1))
        return ['  for (int bx_j = 0; bx_j < %s; bx_j++) %s[bx_j] = %s;' % (m.group(2), name, oblig.NONDET.get({'double': 'double', 'int': 'int'}.get(c, 'double'), 'nondet_double()'))], None
    c = T.c(tt)
    nd = {'double': 'nondet_double()', 'int': 'nondet_int()', '_Bool': 'nondet_bool()', 'unsigned long': 'nondet_ulong()',
          'unsigned int': '(unsigned int)nondet_int()', 'float': '(float)nondet_double()'}.get(c)
    if nd is None:
        if c.startswith('struct '):
            return ['  { %s bx_h; %s = bx_h; }' % (c, name)], None
        raise bx2c.Unsupported('cannot havoc local %s of type %s' % (name, t))
    return ['  %s = %s;' % (name, nd)], None


def const_locals(f):
    """locals whose every assignment is a literal constant expression -> {name: [C texts]}"""
    vals = {}
    bad = set()

    def is_const(e):
        if e.k in ('flit', 'ilit'):
            return True
        if e.k == 'paren':
            return is_const(e.a)
        if e.k == 'un' and e.op in ('-', '+'):
            return is_const(e.a)
        if e.k == 'bin' and e.op in ('+', '-', '*', '/'):
            return is_const(e.a) and is_const(e.b)
        if e.k == 'cast':
            return is_const(e.a)
        return False

    def note(name, rhs):
        if rhs is not None and is_const(rhs):
            vals.setdefault(name, [])
            t = bx2c.P(rhs, bx2c.Opts())
            if t not in vals[name]:
                vals[name].append(t)
        else:
            bad.add(name)

    def fe(e):
        if e.k == 'assign':
            a = e.a
            while a.k == 'paren':
                a = a.a
            if a.k == 'var' and a.extra == 'local' and not a.isd:
                note(a.name, e.b if e.op == '=' else None)
        if e.k == 'un' and e.op in ('++', '--') and e.a.k == 'var':
            bad.add(e.a.name)
        if e.k == 'addr' and e.a.k == 'var':
            bad.add(e.a.name)   # address taken: may be written through a pointer

    def fs(s):
        if s.kind == 'decl':
            if s.init is not None:
                note(s.name, s.init)
                bx2c.walk_expr(s.init, fe)
        for a in ('cond', 'e', 'inc', 'value'):
            x = getattr(s, a, None)
            if isinstance(x, bx2c.E):
                bx2c.walk_expr(x, fe)
        for y in getattr(s, 'items', []) or []:
            fs(y)
        for a in ('then', 'els', 'stmt', 'body', 'init'):
            y = getattr(s, a, None)
            if isinstance(y, bx2c.S):
                fs(y)
    fs(f.body)
    return {k: v for k, v in vals.items() if k not in bad and len(v) <= 8}


def written_names(s):
    """names of locals assigned anywhere inside statement s (including through out-parameters of calls: &x)"""
    out = set()

    def fe(e):
        if e.k == 'assign' or (e.k == 'un' and e.op in ('++', '--')):
            a = e.a
            while a.k in ('paren', 'index', 'member'):
                a = a.a
            if a.k == 'var':
                out.add(a.name)
        if e.k == 'addr':
            a = e.a
            while a.k in ('paren', 'index', 'member'):
                a = a.a
            if a.k == 'var':
                out.add(a.name)

    def fs(x):
        if x.kind == 'decl':
            out.add(x.name)
            if x.init is not None:
                bx2c.walk_expr(x.init, fe)
        for a in ('cond', 'e', 'inc', 'value'):
            y = getattr(x, a, None)
            if isinstance(y, bx2c.E):
                bx2c.walk_expr(y, fe)
        for y in getattr(x, 'items', []) or []:
            fs(y)
        for a in ('then', 'els', 'stmt', 'body', 'init'):
            y = getattr(x, a, None)
            if isinstance(y, bx2c.S):
                fs(y)
    fs(s)
    return out


def expr_vars(e):
    out = set()
    bx2c.walk_expr(e, lambda x: out.add(x.name) if x.k == 'var' else None)
    return out


def has_call(e):
    found = []
    bx2c.walk_expr(e, lambda x: found.append(1) if x.k == 'call' else None)
    return bool(found)


def enclosing_conditions(body, label):
    """conditions of the if-statements whose then-branch contains `label` and that do not write the variables they test:
    they held when the block was entered and still hold at the label (asserted again on every arrival)"""
    res = []

    def find(s, stack):
        if s.kind == 'label':
            if s.name == label:
                res.extend(stack)
                return True
            return find(s.stmt, stack)
        if s.kind == 'if':
            ok = (not has_call(s.cond)) and not (expr_vars(s.cond) & written_names(s.then))
            if find(s.then, stack + ([s.cond] if ok else [])):
                return True
            if s.els is not None and find(s.els, stack):
                return True
            return False
        for y in getattr(s, 'items', []) or []:
            if find(y, stack):
                return True
        for a in ('stmt', 'body'):
            y = getattr(s, a, None)
            if isinstance(y, bx2c.S) and find(y, stack):
                return True
        return False
    find(body, [])
    return res


def vars_after_labels(body, labels):
    """names referenced textually at or after the first of `labels` (what a segment starting at a cut can read)"""
    out = set()
    state = {'on': False}

    def fe(e):
        if state['on'] and e.k == 'var':
            out.add(e.name)

    def fs(s):
        if s.kind == 'label' and s.name in labels:
            state['on'] = True
        if s.kind == 'decl' and s.init is not None:
            bx2c.walk_expr(s.init, fe)
        for a in ('cond', 'e', 'inc', 'value'):
            y = getattr(s, a, None)
            if isinstance(y, bx2c.E):
                bx2c.walk_expr(y, fe)
        for y in getattr(s, 'items', []) or []:
            fs(y)
        for a in ('init', 'then', 'els', 'stmt', 'body'):
            y = getattr(s, a, None)
            if isinstance(y, bx2c.S):
                fs(y)
    fs(body)
    return out


def build_segment_queries(db, contracts, consts, name, kind, cuts, what='c04'):
    f = db['funcs'][name]
    T = db['types']
    aspects = ('count', 'draws') if what == 'c04' else ('enom',)
    stubs, inl, missing = oblig.closure_for(db, contracts, name)
    if missing:
        raise bx2c.Unsupported('%s calls %s which has neither a contract nor an inlinable body' % (name, ', '.join(missing)))
    vec = oblig.uses_vector(db, name, inl)
    mode = 'vec' if vec else 'light'
    if vec and 'count' not in aspects:
        aspects = aspects + ('count',)
    mt = {n for n in inl if db['funcs'][n].throws}
    PFX = 'x_'
    opts = bx2c.Opts(prefix=PFX, hoist=True)
    decls, segtxt, ids = segments.segment_function(f, T, opts, cuts, maythrow=mt)
    parts = [oblig.prelude(db, '#define BX_VEC_REALLOC 1\n#define BX_CAP 64' if vec else '')]
    for s in stubs:
        parts.append(oblig.stub_text(db, contracts[s], consts, mode, aspects))
    for n in inl:
        parts.append(bx2c.Printer(T, bx2c.Opts(), maythrow=mt).function(db['funcs'][n]))
    parts.append(decls)
    parts.append(segtxt)
    pnames = [nm for (pre, nm, t, isref) in f.params]
    G = ['static bx_prng rng; static struct event ev; static unsigned long np0; static double tcnuc; static double tdnuc; static int level;']
    # invariant = the routine's postcondition facts that are already established + well-formedness of pointer locals
    inv = ['!bx_exc', 'g_np <= np0 + %d' % NMAX_DEFAULT]
    if vec:
        inv.append('ev._particles_.size == g_np')
    if kind == 'nuclide':
        inv += ['g_np >= np0 + 1', 'tdnuc >= tcnuc', 'g_draws >= 1']
    else:
        inv += ['(level == 0 || g_np >= np0 + 1)']
        if what == 'c03':
            inv += ['g_enom - (double)level / 1000.0 <= 3.0e-3 && g_enom - (double)level / 1000.0 >= -3.0e-3']
    if name in contracts:
        # routine-specific inductive facts about locals (contracts/l3.spec), asserted on arrival at every cut point
        inv += [oblig.subst_consts(x, consts) for x in contracts[name].extra.get('invariants', [])]
    hav = []
    cl = const_locals(f)
    live = vars_after_labels(segments.lower_loops(f.body) if segments.has_structured_loop(f.body) else f.body, set(cuts))
    cl = {k: v for k, v in cl.items() if k in live}
    for (t, nm, did) in f.locals:
        if T.is_ostream(t):
            continue
        st, iv = havoc_local(T, t, PFX + nm, vec)
        hav += st
        if iv:
            inv.append(iv)
        if nm in cl and bx2c.strip_cv(t) in ('double', 'int'):
            # a local that only ever receives literal constants keeps one of them (asserted on arrival at every cut)
            inv.append(' || '.join('%s%s == %s' % (PFX, nm, v) for v in cl[nm]))
    lv = None
    if kind == 'low':
        lv = oblig.level_literals(f, pnames[2])
    queries = []
    lowered = segments.lower_loops(f.body) if segments.has_structured_loop(f.body) else f.body
    cut_inv = {}
    for c in cuts:
        cut_inv[ids[c]] = [bx2c.P(e, opts) for e in enclosing_conditions(lowered, c)]
    for pc in [0] + [ids[c] for c in cuts]:
        H = list(G)
        H += ['void harness(void)', '{']
        H.append((EVENT_INIT_VEC if vec else EVENT_INIT_LIGHT).replace('struct event ev;', ''))
        H.append('  ev._time_ = nondet_double(); ev._generator_.s = ""; ev._generator_.n = 0;')
        H.append('  bx_exc = 0; g_enom = 0.0; g_evis = 0.0; g_tlast = 0.0;')
        H.append('  %s%s = &rng; %s%s = &ev;' % (PFX, pnames[0], PFX, pnames[1]))
        if kind == 'nuclide':
            H.append('  tcnuc = nondet_double(); __CPROVER_assume(tcnuc >= 0.0 && tcnuc <= 1.0e20); tdnuc = nondet_double();')
            H.append('  %s%s = tcnuc; %s%s = &tdnuc;' % (PFX, pnames[2], PFX, pnames[3]))
        else:
            H.append('  level = nondet_int(); __CPROVER_assume(%s);' % ' || '.join('level == %d' % v for v in lv))
            H.append('  %s%s = level;' % (PFX, pnames[2]))
        if pc == 0:
            H.append('  g_draws = 0; np0 = g_np;')
        else:
            H.append('  np0 = nondet_ulong(); __CPROVER_assume(np0 <= 40);')
            H.append('  g_draws = nondet_ulong(); __CPROVER_assume(g_draws <= 1000000);')
            if what == 'c03':
                H.append('  g_enom = nondet_double();')
            H += hav
            H.append('  __CPROVER_assume(%s);' % ' && '.join('(%s)' % x for x in inv + cut_inv.get(pc, [])))
        H.append('  int nx = %s_seg(%d);' % (name, pc))
        H.append('  if (nx == %d) {' % segments.BX_EXIT)
        if what == 'c04':
            H.append('    __CPROVER_assert(!bx_exc, "C04 %s: no exception on any path");' % name)
            H.append('    __CPROVER_assert(g_np <= np0 + %d, "C04 %s: at most %d particles");' % (NMAX_DEFAULT, name, NMAX_DEFAULT))
            if kind == 'nuclide':
                H.append('    __CPROVER_assert(g_np >= np0 + 1, "C04 %s: at least one particle");' % name)
                H.append('    __CPROVER_assert(tdnuc >= tcnuc, "C04 %s: decay time not before creation time");' % name)
                H.append('    __CPROVER_assert(g_draws >= 1, "C04 %s: consumes at least one deviate");' % name)
            else:
                H.append('    __CPROVER_assert(level == 0 || g_np >= np0 + 1, "C04 %s: an excited level emits at least one particle");' % name)
        else:
            H.append('    __CPROVER_assert(g_enom - (double)level / 1000.0 <= 3.0e-3 && g_enom - (double)level / 1000.0 >= -3.0e-3, '
                     '"C03 %s: cascade releases the level energy within 3 keV on every path");' % name)
        H.append('  } else {')
        H.append('    __CPROVER_assert(nx >= 1 && nx <= %d, "label machine %s: successor is a cut point");' % (len(cuts), name))
        for cid, extra in sorted(cut_inv.items()):
            for k, x in enumerate(extra):
                H.append('    __CPROVER_assert(nx != %d || (%s), "invariant %s: enclosing condition #%d holds at cut %d");' % (cid, x, name, k + 1, cid))
        for k, x in enumerate(inv):
            tagp = 'C08 pointer local stays inside the live particle buffer: ' if '__CPROVER_same_object' in x else ''
            H.append('    __CPROVER_assert(%s, "%sinvariant %s #%d preserved at the next cut point");' % (x, tagp, name, k + 1))
        if pc != 0:
            H.append('    __CPROVER_assert(g_draws > bx_draws_in, "C04 %s: every cycle consumes at least one deviate");' % name)
        H.append('  }')
        H.append('  __CPROVER_assert(0, "canary %s seg %d: harness end is reachable (must be refuted)");' % (name, pc))
        H.append('}')
        txt = '\n'.join(H)
        if pc != 0:
            txt = txt.replace('  int nx = ', '  const unsigned long bx_draws_in = g_draws;\n  int nx = ')
        meta = {'function': name, 'kind': kind, 'what': what, 'stubs': stubs, 'inlined': inl, 'mode': mode, 'levels': lv,
                'aspects': list(aspects), 'segment': pc, 'cut': ([None] + list(cuts))[pc], 'cuts': list(cuts)}
        queries.append({'c': '\n\n'.join(parts + [txt]) + '\n', 'entry': 'harness', 'meta': meta})
    return queries

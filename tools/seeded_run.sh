#!/bin/bash
# tools/seeded_run.sh <seed-id> <only-list or - for everything> <prop> [<prop>...] : apply seeded/<id>/patch.diff to /repo, run the checks, revert
id=$1; only=$2; shift 2
cd /verif
git -C /repo diff --quiet || { echo "/repo has uncommitted changes"; exit 2; }
git -C /repo apply /verif/seeded/$id/patch.diff || exit 2
for p in "$@"; do
  echo "--- $id: ./check $p quick (VERIF_ONLY=$only)"
  if [ "$only" = "-" ]; then
    ./check $p quick 2>&1 | grep -E "^VIOLATION|^KNOWN|quick:" | cut -c1-260 | head -40
  else
    VERIF_ONLY=$only ./check $p quick 2>&1 | grep -E "^VIOLATION|^KNOWN|quick:" | cut -c1-260 | head -40
  fi
  echo "exit=${PIPESTATUS[0]}"
done
git -C /repo checkout -- .

#!/usr/bin/env python3
"""relk.py -- relational pairs for the kernels that communicate through a parameter block:
C++ passes a struct (parbeta, parbeta1, parbeta2) through void *params_, the reference uses common blocks
(common/parbeta/, /parbeta1/, /parbeta2/) whose storage is positional.  The relation ties every struct field to the
common-block slot (and to the reference's dummy arguments of the same meaning)."""
import os, sys, re
sys.path.insert(0, os.path.dirname(os.path.abspath(__file__)))
import bx2c, rel, f77c
from bx2c import Unsupported

NA = rel.NA

# struct field path -> (common slot, [reference variable names equal to it], C type)
FIELDS = {
    'parbeta': [('Zdtr', 'cm_parbeta_0', ['zdtr'], 'double'), ('Qbeta', 'cm_parbeta_1', ['qbeta'], 'double')],
    'parbeta1': [('bx_base_parbeta.Zdtr', 'cm_parbeta_0', ['zdtr'], 'double'), ('bx_base_parbeta.Qbeta', 'cm_parbeta_1', ['qbeta'], 'double'),
                 ('c1', 'cm_parbeta1_0', ['c1'], 'double'), ('c2', 'cm_parbeta1_1', ['c2'], 'double'), ('c3', 'cm_parbeta1_2', ['c3'], 'double'), ('c4', 'cm_parbeta1_3', ['c4'], 'double')],
    'parbeta2': [('bx_base_parbeta1.bx_base_parbeta.Zdtr', 'cm_parbeta_0', ['zdtr'], 'double'), ('bx_base_parbeta1.bx_base_parbeta.Qbeta', 'cm_parbeta_1', ['qbeta'], 'double'),
                 ('kf', 'cm_parbeta2_0', ['kf'], 'int'),
                 ('bx_base_parbeta1.c1', 'cm_parbeta2_1', ['c1'], 'double'), ('bx_base_parbeta1.c2', 'cm_parbeta2_2', ['c2'], 'double'),
                 ('bx_base_parbeta1.c3', 'cm_parbeta2_3', ['c3'], 'double'), ('bx_base_parbeta1.c4', 'cm_parbeta2_4', ['c4'], 'double')],
}
FIELDS['bj69sl2'] = [('bx_base_parbeta1.' + f_, cm_, refs_, ct_) for (f_, cm_, refs_, ct_) in FIELDS['parbeta1']] + [('sl2', 'cm_bj69sl2_0', [], 'double[48]')]
PAIRS = {
    # C++ function: (reference unit, struct, has reference dummies of the closure values?)
    'decay0_beta__1': ('beta', 'parbeta', True),
    'decay0_beta1__1': ('beta1', 'parbeta1', True),
    'decay0_beta2__1': ('beta2', 'parbeta2', True),
    'decay0_funbeta': ('funbeta', 'parbeta', False),
    'decay0_funbeta1': ('funbeta1', 'parbeta1', False),
    'decay0_funbeta2': ('funbeta2', 'parbeta2', False),
    'decay0_beta_1fu__1': ('beta_1fu', 'bj69sl2', True),
    'decay0_funbeta_1fu': ('funbeta_1fu', 'bj69sl2', False),
}
FUN_ID = {'decay0_funbeta': 1, 'decay0_funbeta1': 2, 'decay0_funbeta2': 3, 'decay0_funbeta_1fu': 4}


def struct_pointer_locals(f):
    """C++ locals initialised as pointers into the parameter block: name -> C text of the field path (relative to xs)"""
    out = {}
    ptr = None

    def fs(s):
        nonlocal ptr
        if s.kind == 'decl' and s.init is not None:
            txt = bx2c.P(s.init, bx2c.Opts())
            if 'params_' in txt and txt.startswith('(('):
                ptr = s.name
                out[s.name] = '&xs'
            elif ptr and (ptr + '->') in txt:
                out[s.name] = txt.replace(ptr + '->', 'xs.')
        for y in getattr(s, 'items', []) or []:
            fs(y)
        for a in ('then', 'els', 'stmt', 'body'):
            y = getattr(s, a, None)
            if isinstance(y, bx2c.S):
                fs(y)
    fs(f.body)
    return out


def scalar_fields(struct):
    return [x for x in FIELDS[struct] if '[' not in x[3]]


def array_fields(struct):
    return [x for x in FIELDS[struct] if '[' in x[3]]


def snap_x(struct, p):
    return ''.join('  for (int i = 0; i < 48; i++) snap_x[k][i] = ((struct %s *)%s)->%s[i];\n' % (struct, p, fld) for fld, cm, refs, ct in array_fields(struct))


def snap_r(struct):
    return ''.join('  for (int i = 0; i < 48; i++) snap_r[k][i] = %s[i];\n' % cm for fld, cm, refs, ct in array_fields(struct))


def closure_stub_x(db, pairing, cname, struct):
    """C++ callee  double decay0_funbetaK(double e_, void *params_): abstract effect keyed by E and the closure values"""
    g = db['funcs'][cname]
    T = db['types']
    key = rel.norm(cname.replace('decay0_', ''))
    cid = pairing.callee_id(key)
    sig = bx2c.Printer(T, bx2c.Opts()).signature(g)
    e = g.params[0][1]
    p = g.params[1][1]
    args = ['(double)%s' % e] + ['(double)((struct %s *)%s)->%s' % (struct, p, fld) for fld, cm, refs, ct in scalar_fields(struct)]
    L = [sig, '{', '  int k = tr_x_n; __CPROVER_assert(k < %d, "trace capacity"); tr_x_id[k] = %d;' % (rel.NC, cid)]
    for j, a in enumerate(args):
        L.append('  tr_x_arg[k][%d] = %s;' % (j, a))
    pad = args + ['0.0'] * (NA - len(args))
    if array_fields(struct):
        L.append(snap_x(struct, p).rstrip())
    L.append('  tr_x_n = k + 1; epoch_x = epoch_x + 1; idx_x = 0;')
    L.append('  return __CPROVER_uninterpreted_out(%d, 99, %s);' % (cid, ', '.join(pad[:NA])))
    L.append('}')
    return '\n'.join(L)


def closure_stub_r(prog, pairing, uname, struct):
    key = rel.norm(uname)
    cid = pairing.callee_id(key)
    args = ['(double)e'] + ['(double)%s' % cm for fld, cm, refs, ct in scalar_fields(struct)]
    L = ['double ref_%s(double e)' % uname, '{', '  int k = tr_r_n; __CPROVER_assert(k < %d, "trace capacity"); tr_r_id[k] = %d;' % (rel.NC, cid)]
    for j, a in enumerate(args):
        L.append('  tr_r_arg[k][%d] = %s;' % (j, a))
    pad = args + ['0.0'] * (NA - len(args))
    if array_fields(struct):
        L.append(snap_r(struct).rstrip())
    L.append('  tr_r_n = k + 1; epoch_r = epoch_r + 1; idx_r = 0;')
    L.append('  return __CPROVER_uninterpreted_out(%d, 99, %s);' % (cid, ', '.join(pad[:NA])))
    L.append('}')
    return '\n'.join(L)


def tgold_stub_x(db, pairing, struct):
    g = db['funcs']['decay0_tgold']
    T = db['types']
    cid = pairing.callee_id('tgold')
    sig = bx2c.Printer(T, bx2c.Opts()).signature(g)
    pn = [p[1] for p in g.params]   # a_, unnamed1, c_, f_, eps_, minmax_, xextr_, fextr_, params_
    fid = ' : '.join('%s == %s ? %d.0' % (pn[3], fn, k) for fn, k in FUN_ID.items() if fn in db['funcs']) + ' : 0.0'
    args = ['(double)%s' % pn[0], '(double)%s' % pn[2], '(double)%s' % pn[4], '(double)%s' % pn[5], '(%s)' % fid] + \
           ['(double)((struct %s *)%s)->%s' % (struct, pn[8], fld) for fld, cm, refs, ct in scalar_fields(struct)]
    L = [sig, '{', '  int k = tr_x_n; __CPROVER_assert(k < %d, "trace capacity"); tr_x_id[k] = %d;' % (rel.NC, cid)]
    for j, a in enumerate(args):
        L.append('  tr_x_arg[k][%d] = %s;' % (j, a))
    pad = args + ['0.0'] * (NA - len(args))
    if array_fields(struct):
        L.append(snap_x(struct, pn[8]).rstrip())
    L.append('  *%s = __CPROVER_uninterpreted_out(%d, 0, %s);' % (pn[6], cid, ', '.join(pad[:NA])))
    L.append('  *%s = __CPROVER_uninterpreted_out(%d, 1, %s);' % (pn[7], cid, ', '.join(pad[:NA])))
    L.append('  tr_x_n = k + 1; epoch_x = epoch_x + 1; idx_x = 0;')
    L.append('}')
    return '\n'.join(L)


def tgold_stub_r(prog, pairing, struct, funit):
    cid = pairing.callee_id('tgold')
    fidr = {'funbeta': 1, 'funbeta1': 2, 'funbeta2': 3, 'funbeta_1fu': 4}
    fid = ' : '.join('f == ref_%s ? %d.0' % (fn, k) for fn, k in fidr.items() if fn == funit) + ' : 0.0'
    args = ['(double)a', '(double)b', '(double)eps', '(double)minmax', '(%s)' % fid] + ['(double)%s' % cm for fld, cm, refs, ct in scalar_fields(struct)]
    L = ['double ref_%s(double e);' % funit,
         'void ref_tgold(double a, double b, double (*f)(double), double eps, int minmax, double *xextr, double *fextr)', '{',
         '  int k = tr_r_n; __CPROVER_assert(k < %d, "trace capacity"); tr_r_id[k] = %d;' % (rel.NC, cid)]
    for j, a in enumerate(args):
        L.append('  tr_r_arg[k][%d] = %s;' % (j, a))
    pad = args + ['0.0'] * (NA - len(args))
    if array_fields(struct):
        L.append(snap_r(struct).rstrip())
    L.append('  *xextr = __CPROVER_uninterpreted_out(%d, 0, %s);' % (cid, ', '.join(pad[:NA])))
    L.append('  *fextr = __CPROVER_uninterpreted_out(%d, 1, %s);' % (cid, ', '.join(pad[:NA])))
    L.append('  tr_r_n = k + 1; epoch_r = epoch_r + 1; idx_r = 0;')
    L.append('}')
    return '\n'.join(L)


def build(db, prog, cname, propid='C01'):
    rname, struct, has_dummies = PAIRS[cname]
    pairing = rel.Pairing(db, prog)
    fx = db['funcs'][cname]
    fr = prog.translate(rname)
    ptrs = struct_pointer_locals(fx)
    setup = ['  x_%s = (void *)&xs;' % [p[1] for p in fx.params if 'void' in p[2]][0]]
    for nm, path in ptrs.items():
        setup.append('  x_%s = %s;' % (nm, path))
    ref_names = {rel.norm(p[1]) for p in fr.params} | {rel.norm(l[1]) for l in fr.locals}
    checks = []
    skip = set(rel.norm(n) for n in ptrs)
    for fld, cm, refs, ct in FIELDS[struct]:
        if '[' in ct:
            setup.append('  for (int i = 0; i < 48; i++) { double v = nondet_double(); xs.%s[i] = v; %s[i] = v; }' % (fld, cm))
            checks.append(('closure array ' + fld, ' && '.join('bx_same(xs.%s[%d], %s[%d])' % (fld, i, cm, i) for i in range(48))))
            continue
        targets = ['xs.%s' % fld, cm] + ['r_%s' % r for r in refs if has_dummies and r in ref_names]
        setup.append('  { %s v = nondet_%s(); %s }' % (ct, ct, ' '.join('%s = v;' % t for t in targets)))
        cmp_ = 'bx_same((double)xs.%s, (double)%s)' % (fld, cm)
        checks.append(('closure ' + fld.split('.')[-1], cmp_))
        for r_ in refs:
            skip.add(r_)
    if array_fields(struct):
        for c_ in range(rel.NC):
            checks.append(('closure array at call #%d' % (c_ + 1), '(%d >= tr_x_n || %d >= tr_r_n || (%s))' % (c_, c_, ' && '.join('bx_same(snap_x[%d][%d], snap_r[%d][%d])' % (c_, i, c_, i) for i in range(48)))))
    hooks = {'ref': rname, 'skip_vars': skip, 'extra_setup': setup, 'extra_checks': checks,
             'extra_globals': ['static struct %s xs;' % struct, 'static double snap_x[%d][48], snap_r[%d][48];' % (rel.NC, rel.NC)] + [('static double %s[48];' % cm) if '[' in ct else ('static %s %s;' % (ct, cm)) for fld, cm, refs, ct in FIELDS[struct]],
             'custom_stubs_x': {}, 'custom_stubs_r': {}}
    if struct == 'parbeta2':
        # kf selects the forbidden-shape correction 1..4 (0 = none); the C++ throws for kf > 4 where the reference silently
        # uses cf = 1: outside the documented domain of the argument
        hooks['extra_setup'].append('  __CPROVER_assume(xs.kf <= 4);')
    if cname == 'decay0_funbeta_1fu':
        did = pairing.callee_id('divdif')
        g = db['funcs']['decay0_divdif']
        pn = [p[1] for p in g.params]
        sig = bx2c.Printer(db['types'], bx2c.Opts()).signature(g)
        pad = ', '.join(['(double)%s' % pn[2], '(double)%s' % pn[3], '(double)%s' % pn[4]] + ['0.0'] * (NA - 3))
        hooks['custom_stubs_x']['decay0_divdif'] = sig + '\n{\n  int k = tr_x_n; __CPROVER_assert(k < %d, "trace capacity"); tr_x_id[k] = %d; tr_x_arg[k][0] = %s; tr_x_arg[k][1] = %s; tr_x_arg[k][2] = %s;\n  for (int i = 0; i < 48; i++) snap_x[k][i] = %s[i];\n  tr_x_n = k + 1; epoch_x = epoch_x + 1; idx_x = 0;\n  return __CPROVER_uninterpreted_out(%d, 99, %s);\n}' % (rel.NC, did, pn[2], pn[3], pn[4], pn[0], did, pad)
        padr = ', '.join(['(double)nn', '(double)x', '(double)mm'] + ['0.0'] * (NA - 3))
        hooks['custom_stubs_r']['divdif'] = 'double ref_divdif(double *f, double *a, int nn, double x, int mm)\n{\n  int k = tr_r_n; __CPROVER_assert(k < %d, "trace capacity"); tr_r_id[k] = %d; tr_r_arg[k][0] = nn; tr_r_arg[k][1] = x; tr_r_arg[k][2] = mm;\n  for (int i = 0; i < 48; i++) snap_r[k][i] = f[i];\n  tr_r_n = k + 1; epoch_r = epoch_r + 1; idx_r = 0;\n  return __CPROVER_uninterpreted_out(%d, 99, %s);\n}' % (rel.NC, did, did, padr)
    if cname in ('decay0_beta__1', 'decay0_beta1__1', 'decay0_beta2__1'):
        hooks['cutmap'] = {'bx_loop1_head': 'label_1'}
    if cname == 'decay0_beta_1fu__1':
        hooks['cutmap'] = {'bx_loop2_head': 'label_1'}   # loop 1 is the sl2 initialisation (a DO loop on both sides)
    fun_x = [c for c in fx.calls if c in FUN_ID]
    for c in fun_x:
        hooks['custom_stubs_x'][c] = closure_stub_x(db, pairing, c, struct)
    for c in fr.calls:
        if c in ('funbeta', 'funbeta1', 'funbeta2', 'funbeta_1fu') and c != rname:
            hooks['custom_stubs_r'][c] = closure_stub_r(prog, pairing, c, struct)
    if 'decay0_tgold' in fx.calls:
        hooks['custom_stubs_x']['decay0_tgold'] = tgold_stub_x(db, pairing, struct)
        funit = [c for c in ('funbeta_1fu', 'funbeta1', 'funbeta2', 'funbeta') if c in fr.calls or c in fr.ref_unit.externals][0]
        hooks['custom_stubs_r']['tgold'] = tgold_stub_r(prog, pairing, struct, funit)
    return rel.build_pair_query(db, prog, cname, pairing=pairing, propid=propid, hooks=hooks)


WRAPPERS = {
    # wrapper: (worker, struct, [(wrapper parameter, struct field path)])
    'decay0_beta': ('decay0_beta__1', 'parbeta', [('Zdtr_', 'Zdtr'), ('Qbeta_', 'Qbeta')]),
    'decay0_beta1': ('decay0_beta1__1', 'parbeta1', [('Zdtr_', 'bx_base_parbeta.Zdtr'), ('Qbeta_', 'bx_base_parbeta.Qbeta'), ('c1_', 'c1'), ('c2_', 'c2'), ('c3_', 'c3'), ('c4_', 'c4')]),
    'decay0_beta_1fu': ('decay0_beta_1fu__1', 'bj69sl2', [('Zdtr_', 'bx_base_parbeta1.bx_base_parbeta.Zdtr'), ('Qbeta_', 'bx_base_parbeta1.bx_base_parbeta.Qbeta'), ('c1_', 'bx_base_parbeta1.c1'), ('c2_', 'bx_base_parbeta1.c2'), ('c3_', 'bx_base_parbeta1.c3'), ('c4_', 'bx_base_parbeta1.c4')]),
    'decay0_beta2': ('decay0_beta2__1', 'parbeta2', [('Zdtr_', 'bx_base_parbeta1.bx_base_parbeta.Zdtr'), ('Qbeta_', 'bx_base_parbeta1.bx_base_parbeta.Qbeta'), ('kf_', 'kf'),
                                                     ('c1_', 'bx_base_parbeta1.c1'), ('c2_', 'bx_base_parbeta1.c2'), ('c3_', 'bx_base_parbeta1.c3'), ('c4_', 'bx_base_parbeta1.c4')]),
}


def build_wrapper_query(db, wname, propid='C01'):
    """the public wrapper packs its arguments into the parameter block and forwards the rest unchanged: the worker is
    replaced by a stub that asserts exactly that (this is the reference's  z=Zdtr; q=Qbeta; c1h=c1 ...  prologue)"""
    import oblig, extract
    worker, struct, fmap = WRAPPERS[wname]
    T = db['types']
    fw = db['funcs'][wname]
    fk = db['funcs'][worker]
    pr = bx2c.Printer(T, bx2c.Opts())
    th, _ = extract.types_h(db)
    parts = ['#include "bx_shim.h"', th, '#include "bx_shim_fn.h"', extract.protos_h(db), 'int bx_exc; unsigned long g_draws;',
             'double nondet_double(void); int nondet_int(void);']
    wp = [(p[1], T.c(p[2].replace('&', '')) if not p[3] else T.c(p[2])) for p in fw.params]
    G = []
    for nm, ct in wp:
        if ct in ('double', 'int'):
            G.append('static %s w_%s;' % (ct, nm))
    G.append('static double *w_tdnuc; static bx_prng w_rng; static struct event w_ev; static int w_called;')
    parts += G
    kp = [p[1] for p in fk.params]   # prng_, event_, tcnuc_, thnuc_, tdnuc_, params_
    L = [pr.signature(fk), '{', '  w_called = w_called + 1;']
    tag = '%s wrapper %s' % (propid, wname)
    for wpar, fld in fmap:
        L.append('  __CPROVER_assert(((struct %s *)%s)->%s == w_%s, "%s: argument %s reaches the parameter block field %s");' % (struct, kp[5], fld, wpar, tag, wpar, fld.split('.')[-1]))
    L.append('  __CPROVER_assert(%s == w_tcnuc_ && %s == w_thnuc_, "%s: tcnuc and thnuc are forwarded unchanged");' % (kp[2], kp[3], tag))
    L.append('  __CPROVER_assert(%s == w_tdnuc && %s == &w_rng && %s == &w_ev, "%s: the deviate source, the event and the out-parameter are forwarded");' % (kp[4], kp[0], kp[1], tag))
    L.append('}')
    parts.append('\n'.join(L))
    for c in sorted(fw.calls):
        if c != worker and c in db['funcs'] and c.endswith('__ctor'):
            parts.append(pr.function(db['funcs'][c]))
    parts.append(pr.function(fw))
    H = ['void harness(void)', '{', '  double td; w_tdnuc = &td; w_called = 0; bx_exc = 0;']
    args = []
    for nm, ct in wp:
        if ct == 'double':
            H.append('  w_%s = nondet_double(); __CPROVER_assume(w_%s == w_%s);' % (nm, nm, nm))
            args.append('w_' + nm)
        elif ct == 'int':
            H.append('  w_%s = nondet_int();' % nm)
            args.append('w_' + nm)
        elif 'bx_prng' in ct:
            args.append('&w_rng')
        elif 'event' in ct:
            args.append('&w_ev')
        else:
            args.append('w_tdnuc')
    H.append('  %s(%s);' % (wname, ', '.join(args)))
    H.append('  __CPROVER_assert(w_called == 1, "%s: the worker runs exactly once");' % tag)
    H.append('  __CPROVER_assert(0, "canary %s: harness end is reachable (must be refuted)");' % wname)
    H.append('}')
    parts.append('\n'.join(H))
    return {'c': '\n\n'.join(parts) + '\n', 'entry': 'harness', 'meta': {'function': wname, 'what': 'rel', 'cuts': [], 'reference': 'prologue of ' + wname.replace('decay0_', '')}}


def build_fermi(db, prog, propid='C01'):
    """decay0_fermi (-> decay0_fermi_func_orig, inlined) against the reference fermi(Z,E)"""
    hooks = {'ref': 'fermi', 'inline_x': ('decay0_fermi_func_orig',),
             'custom_stubs_x': {'bx_ext_gsl_strerror': ''}}
    return rel.build_pair_query(db, prog, 'decay0_fermi', propid=propid, hooks=hooks)


def build_tgold(db, prog, propid='C01'):
    """golden-section search: decay0_tgold(a, -, c, f, eps, minmax, &x, &fx, params) against tgold(a,b,f,eps,minmax,x,fx);
    the function under search is the same abstract effect on both sides (same function and closure is the caller's obligation)"""
    pairing = rel.Pairing(db, prog)
    cid = pairing.callee_id('indirect_f')
    pad = ', '.join(['x'] + ['0.0'] * (NA - 1))
    ind = ['static double ind_x(double x, void *p) { int k = tr_x_n; __CPROVER_assert(k < %d, "trace capacity"); tr_x_id[k] = %d; tr_x_arg[k][0] = x; tr_x_n = k + 1; epoch_x = epoch_x + 1; idx_x = 0; return __CPROVER_uninterpreted_out(%d, 99, %s); }' % (rel.NC, cid, cid, pad),
           'static double ind_r(double x) { int k = tr_r_n; __CPROVER_assert(k < %d, "trace capacity"); tr_r_id[k] = %d; tr_r_arg[k][0] = x; tr_r_n = k + 1; epoch_r = epoch_r + 1; idx_r = 0; return __CPROVER_uninterpreted_out(%d, 99, %s); }' % (rel.NC, cid, cid, pad)]
    hooks = {'ref': 'tgold', 'extra_globals': ind, 'extra_setup': ['  x_f_ = ind_x; r_f = ind_r; x_params_ = (void *)0;'],
             'rename_x': {'c': 'b'}, 'skip_vars': {'f', 'params', 'unnamed1'}}
    return rel.build_pair_query(db, prog, 'decay0_tgold', pairing=pairing, propid=propid, hooks=hooks)


def build_table_query(db, prog, cxx_global, ref_common, propid='C01'):
    """a data table of the port against the reference's block data, element by element (relative tolerance 5e-6)"""
    t, init = db['globals'][cxx_global]
    if init.k != 'init':
        raise Unsupported('global %s is not an initialiser list' % cxx_global)
    m = re.match(r'^const double\s*\[(\d+)\]$', t.strip())
    n = int(m.group(1))
    xs_ = [bx2c.P(e, bx2c.Opts()) for e in init.args]
    rs = prog.common_init.get(ref_common)
    if rs is None:
        raise Unsupported('no block data for ' + ref_common)
    parts = ['#include "bx_shim.h"',
             'static const double X[%d] = {%s};' % (n, ', '.join(xs_)),
             'static const double R[%d] = {%s};' % (len(rs), ', '.join(v.lower().replace('d', 'e') for v in rs))]
    H = ['void harness(void)', '{']
    tag = '%s table %s vs reference %s' % (propid, cxx_global, ref_common)
    H.append('  __CPROVER_assert(%d == %d, "%s: same number of entries declared");' % (n, len(rs), tag))
    H.append('  __CPROVER_assert(%d == %d, "%s: every entry has an initialiser (no implicit zero fill)");' % (len(xs_), n, tag))
    for i in range(min(n, len(rs))):
        H.append('  { double d = X[%d] - R[%d]; double s = R[%d] < 0.0 ? -R[%d] : R[%d]; __CPROVER_assert(d <= 5e-6 * s && d >= -5e-6 * s, "%s: entry %d equal");}' % (i, i, i, i, i, tag, i + 1))
    H.append('  __CPROVER_assert(0, "canary table: harness end is reachable (must be refuted)");')
    H.append('}')
    parts.append('\n'.join(H))
    return {'c': '\n\n'.join(parts) + '\n', 'entry': 'harness', 'meta': {'function': cxx_global, 'what': 'rel', 'cuts': [], 'reference': 'block data ' + ref_common}}

#!/usr/bin/env python3
"""relk.py -- relational pairs for the kernels that communicate through a parameter block:
C++ passes a struct (parbeta, parbeta1, parbeta2) through void *params_, the reference uses common blocks
(common/parbeta/, /parbeta1/, /parbeta2/) whose storage is positional.  The relation ties every struct field to the
common-block slot (and to the reference's dummy arguments of the same meaning)."""
import os, sys, re
sys.path.insert(0, os.path.dirname(os.path.abspath(__file__)))
import bx2c, rel, f77c
from bx2c import Unsupported

NA = rel.NA

# struct field path -> (common slot, [reference variable names equal to it], C type)
FIELDS = {
    'parbeta': [('Zdtr', 'cm_parbeta_0', ['zdtr'], 'double'), ('Qbeta', 'cm_parbeta_1', ['qbeta'], 'double')],
    'parbeta1': [('bx_base_parbeta.Zdtr', 'cm_parbeta_0', ['zdtr'], 'double'), ('bx_base_parbeta.Qbeta', 'cm_parbeta_1', ['qbeta'], 'double'),
                 ('c1', 'cm_parbeta1_0', ['c1'], 'double'), ('c2', 'cm_parbeta1_1', ['c2'], 'double'), ('c3', 'cm_parbeta1_2', ['c3'], 'double'), ('c4', 'cm_parbeta1_3', ['c4'], 'double')],
    'parbeta2': [('bx_base_parbeta1.bx_base_parbeta.Zdtr', 'cm_parbeta_0', ['zdtr'], 'double'), ('bx_base_parbeta1.bx_base_parbeta.Qbeta', 'cm_parbeta_1', ['qbeta'], 'double'),
                 ('kf', 'cm_parbeta2_0', ['kf'], 'int'),
                 ('bx_base_parbeta1.c1', 'cm_parbeta2_1', ['c1'], 'double'), ('bx_base_parbeta1.c2', 'cm_parbeta2_2', ['c2'], 'double'),
                 ('bx_base_parbeta1.c3', 'cm_parbeta2_3', ['c3'], 'double'), ('bx_base_parbeta1.c4', 'cm_parbeta2_4', ['c4'], 'double')],
}
FIELDS['bj69sl2'] = [('bx_base_parbeta1.' + f_, cm_, refs_, ct_) for (f_, cm_, refs_, ct_) in FIELDS['parbeta1']] + [('sl2', 'cm_bj69sl2_0', [], 'double[48]')]
PAIRS = {
    # C++ function: (reference unit, struct, has reference dummies of the closure values?)
    'decay0_beta__1': ('beta', 'parbeta', True),
    'decay0_beta1__1': ('beta1', 'parbeta1', True),
    'decay0_beta2__1': ('beta2', 'parbeta2', True),
    'decay0_funbeta': ('funbeta', 'parbeta', False),
    'decay0_funbeta1': ('funbeta1', 'parbeta1', False),
    'decay0_funbeta2': ('funbeta2', 'parbeta2', False),
    'decay0_beta_1fu__1': ('beta_1fu', 'bj69sl2', True),
    'decay0_funbeta_1fu': ('funbeta_1fu', 'bj69sl2', False),
}
def _fe_pairs():
    import glob
    out = {}
    for f_ in ('fe1_mods.cc', 'fe2_mods.cc', 'fe12_mods.cc'):
        txt = open(os.path.join(bx2c.REPO, 'bxdecay0', f_)).read()
        for m in re.finditer(r'double\s+decay0_(fe\d+_mod\d+)\s*\(', txt):
            out['decay0_' + m.group(1)] = (m.group(1), 'bbpars', False)
    return out


FUN_ID = {'decay0_funbeta': 1, 'decay0_funbeta1': 2, 'decay0_funbeta2': 3, 'decay0_funbeta_1fu': 4}


def struct_pointer_locals(f):
    """C++ locals initialised as pointers into the parameter block: name -> C text of the field path (relative to xs)"""
    out = {}
    ptr = None

    def fs(s):
        nonlocal ptr
        if s.kind == 'decl' and s.init is not None:
            txt = bx2c.P(s.init, bx2c.Opts())
            if 'params_' in txt and txt.startswith('(('):
                ptr = s.name
                out[s.name] = '&xs'
            elif ptr and (ptr + '->') in txt and ('&' in s.cxxtype or '*' in s.cxxtype):
                out[s.name] = txt.replace(ptr + '->', 'xs.')
        for y in getattr(s, 'items', []) or []:
            fs(y)
        for a in ('then', 'els', 'stmt', 'body'):
            y = getattr(s, a, None)
            if isinstance(y, bx2c.S):
                fs(y)
    fs(f.body)
    return out


def scalar_fields(struct):
    return [x for x in FIELDS[struct] if '[' not in x[3]]


def array_fields(struct):
    return [x for x in FIELDS[struct] if '[' in x[3]]


def snap_x(struct, p):
    return ''.join('  for (int i = 0; i < 48; i++) snap_x[k][i] = ((struct %s *)%s)->%s[i];\n' % (struct, p, fld) for fld, cm, refs, ct in array_fields(struct))


def snap_r(struct):
    return ''.join('  for (int i = 0; i < 48; i++) snap_r[k][i] = %s[i];\n' % cm for fld, cm, refs, ct in array_fields(struct))


def closure_stub_x(db, pairing, cname, struct):
    """C++ callee  double decay0_funbetaK(double e_, void *params_): abstract effect keyed by E and the closure values"""
    g = db['funcs'][cname]
    T = db['types']
    key = rel.norm(cname.replace('decay0_', ''))
    cid = pairing.callee_id(key)
    sig = bx2c.Printer(T, bx2c.Opts()).signature(g)
    e = g.params[0][1]
    p = g.params[1][1]
    args = ['(double)%s' % e] + ['(double)((struct %s *)%s)->%s' % (struct, p, fld) for fld, cm, refs, ct in scalar_fields(struct)]
    L = [sig, '{', '  int k = tr_x_n; __CPROVER_assert(k < %d, "trace capacity"); tr_x_id[k] = %d;' % (rel.NC, cid)]
    for j, a in enumerate(args):
        L.append('  tr_x_arg[k][%d] = %s;' % (j, a))
    pad = args + ['0.0'] * (NA - len(args))
    if array_fields(struct):
        L.append(snap_x(struct, p).rstrip())
    L.append('  tr_x_n = k + 1; epoch_x = epoch_x + 1; idx_x = 0;')
    L.append('  return __CPROVER_uninterpreted_out(%d, 99, %s);' % (cid, ', '.join(pad[:NA])))
    L.append('}')
    return '\n'.join(L)


def closure_stub_r(prog, pairing, uname, struct):
    key = rel.norm(uname)
    cid = pairing.callee_id(key)
    args = ['(double)e'] + ['(double)%s' % cm for fld, cm, refs, ct in scalar_fields(struct)]
    L = ['double ref_%s(double e)' % uname, '{', '  int k = tr_r_n; __CPROVER_assert(k < %d, "trace capacity"); tr_r_id[k] = %d;' % (rel.NC, cid)]
    for j, a in enumerate(args):
        L.append('  tr_r_arg[k][%d] = %s;' % (j, a))
    pad = args + ['0.0'] * (NA - len(args))
    if array_fields(struct):
        L.append(snap_r(struct).rstrip())
    L.append('  tr_r_n = k + 1; epoch_r = epoch_r + 1; idx_r = 0;')
    L.append('  return __CPROVER_uninterpreted_out(%d, 99, %s);' % (cid, ', '.join(pad[:NA])))
    L.append('}')
    return '\n'.join(L)


def tgold_stub_x(db, pairing, struct):
    g = db['funcs']['decay0_tgold']
    T = db['types']
    cid = pairing.callee_id('tgold')
    sig = bx2c.Printer(T, bx2c.Opts()).signature(g)
    pn = [p[1] for p in g.params]   # a_, unnamed1, c_, f_, eps_, minmax_, xextr_, fextr_, params_
    fid = ' : '.join('%s == %s ? %d.0' % (pn[3], fn, k) for fn, k in FUN_ID.items() if fn in db['funcs']) + ' : 0.0'
    args = ['(double)%s' % pn[0], '(double)%s' % pn[2], '(double)%s' % pn[4], '(double)%s' % pn[5], '(%s)' % fid] + \
           ['(double)((struct %s *)%s)->%s' % (struct, pn[8], fld) for fld, cm, refs, ct in scalar_fields(struct)]
    L = [sig, '{', '  int k = tr_x_n; __CPROVER_assert(k < %d, "trace capacity"); tr_x_id[k] = %d;' % (rel.NC, cid)]
    for j, a in enumerate(args):
        L.append('  tr_x_arg[k][%d] = %s;' % (j, a))
    pad = args + ['0.0'] * (NA - len(args))
    if array_fields(struct):
        L.append(snap_x(struct, pn[8]).rstrip())
    L.append('  *%s = __CPROVER_uninterpreted_out(%d, 0, %s);' % (pn[6], cid, ', '.join(pad[:NA])))
    L.append('  *%s = __CPROVER_uninterpreted_out(%d, 1, %s);' % (pn[7], cid, ', '.join(pad[:NA])))
    L.append('  tr_x_n = k + 1; epoch_x = epoch_x + 1; idx_x = 0;')
    L.append('}')
    return '\n'.join(L)


def tgold_stub_r(prog, pairing, struct, funit):
    cid = pairing.callee_id('tgold')
    fidr = {'funbeta': 1, 'funbeta1': 2, 'funbeta2': 3, 'funbeta_1fu': 4}
    fid = ' : '.join('f == ref_%s ? %d.0' % (fn, k) for fn, k in fidr.items() if fn == funit) + ' : 0.0'
    args = ['(double)a', '(double)b', '(double)eps', '(double)minmax', '(%s)' % fid] + ['(double)%s' % cm for fld, cm, refs, ct in scalar_fields(struct)]
    L = ['double ref_%s(double e);' % funit,
         'void ref_tgold(double a, double b, double (*f)(double), double eps, int minmax, double *xextr, double *fextr)', '{',
         '  int k = tr_r_n; __CPROVER_assert(k < %d, "trace capacity"); tr_r_id[k] = %d;' % (rel.NC, cid)]
    for j, a in enumerate(args):
        L.append('  tr_r_arg[k][%d] = %s;' % (j, a))
    pad = args + ['0.0'] * (NA - len(args))
    if array_fields(struct):
        L.append(snap_r(struct).rstrip())
    L.append('  *xextr = __CPROVER_uninterpreted_out(%d, 0, %s);' % (cid, ', '.join(pad[:NA])))
    L.append('  *fextr = __CPROVER_uninterpreted_out(%d, 1, %s);' % (cid, ', '.join(pad[:NA])))
    L.append('  tr_r_n = k + 1; epoch_r = epoch_r + 1; idx_r = 0;')
    L.append('}')
    return '\n'.join(L)


def build(db, prog, cname, propid='C01'):
    if cname not in PAIRS and re.match(r'^decay0_fe\d+_mod\d+$', cname):
        PAIRS.update(_fe_pairs())
        FIELDS['bbpars'] = [f_ for f_ in BB_FIELDS if f_[1]]
    rname, struct, has_dummies = PAIRS[cname]
    pairing = rel.Pairing(db, prog)
    fx = db['funcs'][cname]
    fr = prog.translate(rname)
    ptrs = struct_pointer_locals(fx)
    setup = ['  x_%s = (void *)&xs;' % [p[1] for p in fx.params if 'void' in p[2]][0]]
    for nm, path in ptrs.items():
        setup.append('  x_%s = %s;' % (nm, path))
    ref_names = {rel.norm(p[1]) for p in fr.params} | {rel.norm(l[1]) for l in fr.locals}
    checks = []
    skip = set(rel.norm(n) for n in ptrs)
    for fld, cm, refs, ct in FIELDS[struct]:
        if '[' in ct:
            setup.append('  for (int i = 0; i < 48; i++) { double v = nondet_double(); xs.%s[i] = v; %s[i] = v; }' % (fld, cm))
            checks.append(('closure array ' + fld, ' && '.join('bx_same(xs.%s[%d], %s[%d])' % (fld, i, cm, i) for i in range(48))))
            continue
        targets = ['xs.%s' % fld, cm] + ['r_%s' % r for r in refs if has_dummies and r in ref_names]
        setup.append('  { %s v = nondet_%s(); %s }' % (ct, ct, ' '.join('%s = v;' % t for t in targets)))
        cmp_ = 'bx_same((double)xs.%s, (double)%s)' % (fld, cm)
        checks.append(('closure ' + fld.split('.')[-1], cmp_))
        for r_ in refs:
            skip.add(r_)
    if array_fields(struct):
        for c_ in range(rel.NC):
            checks.append(('closure array at call #%d' % (c_ + 1), '(%d >= tr_x_n || %d >= tr_r_n || (%s))' % (c_, c_, ' && '.join('bx_same(snap_x[%d][%d], snap_r[%d][%d])' % (c_, i, c_, i) for i in range(48)))))
    hooks = {'ref': rname, 'skip_vars': skip, 'extra_setup': setup, 'extra_checks': checks,
             'extra_globals': ['static struct %s xs;' % struct, 'static double snap_x[%d][48], snap_r[%d][48];' % (rel.NC, rel.NC)] + [('static double %s[48];' % cm) if '[' in ct else ('static %s %s;' % (ct, cm)) for fld, cm, refs, ct in FIELDS[struct]],
             'custom_stubs_x': {}, 'custom_stubs_r': {}}
    if struct == 'parbeta2':
        # kf selects the forbidden-shape correction 1..4 (0 = none); the C++ throws for kf > 4 where the reference silently
        # uses cf = 1: outside the documented domain of the argument
        hooks['extra_setup'].append('  __CPROVER_assume(xs.kf <= 4);')
    if cname == 'decay0_funbeta_1fu':
        did = pairing.callee_id('divdif')
        g = db['funcs']['decay0_divdif']
        pn = [p[1] for p in g.params]
        sig = bx2c.Printer(db['types'], bx2c.Opts()).signature(g)
        pad = ', '.join(['(double)%s' % pn[2], '(double)%s' % pn[3], '(double)%s' % pn[4]] + ['0.0'] * (NA - 3))
        hooks['custom_stubs_x']['decay0_divdif'] = sig + '\n{\n  int k = tr_x_n; __CPROVER_assert(k < %d, "trace capacity"); tr_x_id[k] = %d; tr_x_arg[k][0] = %s; tr_x_arg[k][1] = %s; tr_x_arg[k][2] = %s;\n  for (int i = 0; i < 48; i++) snap_x[k][i] = %s[i];\n  tr_x_n = k + 1; epoch_x = epoch_x + 1; idx_x = 0;\n  return __CPROVER_uninterpreted_out(%d, 99, %s);\n}' % (rel.NC, did, pn[2], pn[3], pn[4], pn[0], did, pad)
        padr = ', '.join(['(double)nn', '(double)x', '(double)mm'] + ['0.0'] * (NA - 3))
        hooks['custom_stubs_r']['divdif'] = 'double ref_divdif(double *f, double *a, int nn, double x, int mm)\n{\n  int k = tr_r_n; __CPROVER_assert(k < %d, "trace capacity"); tr_r_id[k] = %d; tr_r_arg[k][0] = nn; tr_r_arg[k][1] = x; tr_r_arg[k][2] = mm;\n  for (int i = 0; i < 48; i++) snap_r[k][i] = f[i];\n  tr_r_n = k + 1; epoch_r = epoch_r + 1; idx_r = 0;\n  return __CPROVER_uninterpreted_out(%d, 99, %s);\n}' % (rel.NC, did, did, padr)
    if cname in ('decay0_beta__1', 'decay0_beta1__1', 'decay0_beta2__1'):
        hooks['cutmap'] = {'bx_loop1_head': 'label_1'}
    if cname == 'decay0_beta_1fu__1':
        hooks['cutmap'] = {'bx_loop2_head': 'label_1'}   # loop 1 is the sl2 initialisation (a DO loop on both sides)
    fun_x = [c for c in fx.calls if c in FUN_ID]
    for c in fun_x:
        hooks['custom_stubs_x'][c] = closure_stub_x(db, pairing, c, struct)
    for c in fr.calls:
        if c in ('funbeta', 'funbeta1', 'funbeta2', 'funbeta_1fu') and c != rname:
            hooks['custom_stubs_r'][c] = closure_stub_r(prog, pairing, c, struct)
    if 'decay0_tgold' in fx.calls:
        hooks['custom_stubs_x']['decay0_tgold'] = tgold_stub_x(db, pairing, struct)
        funit = [c for c in ('funbeta_1fu', 'funbeta1', 'funbeta2', 'funbeta') if c in fr.calls or c in fr.ref_unit.externals][0]
        hooks['custom_stubs_r']['tgold'] = tgold_stub_r(prog, pairing, struct, funit)
    return rel.build_pair_query(db, prog, cname, pairing=pairing, propid=propid, hooks=hooks)


WRAPPERS = {
    # wrapper: (worker, struct, [(wrapper parameter, struct field path)])
    'decay0_beta': ('decay0_beta__1', 'parbeta', [('Zdtr_', 'Zdtr'), ('Qbeta_', 'Qbeta')]),
    'decay0_beta1': ('decay0_beta1__1', 'parbeta1', [('Zdtr_', 'bx_base_parbeta.Zdtr'), ('Qbeta_', 'bx_base_parbeta.Qbeta'), ('c1_', 'c1'), ('c2_', 'c2'), ('c3_', 'c3'), ('c4_', 'c4')]),
    'decay0_beta_1fu': ('decay0_beta_1fu__1', 'bj69sl2', [('Zdtr_', 'bx_base_parbeta1.bx_base_parbeta.Zdtr'), ('Qbeta_', 'bx_base_parbeta1.bx_base_parbeta.Qbeta'), ('c1_', 'bx_base_parbeta1.c1'), ('c2_', 'bx_base_parbeta1.c2'), ('c3_', 'bx_base_parbeta1.c3'), ('c4_', 'bx_base_parbeta1.c4')]),
    'decay0_beta2': ('decay0_beta2__1', 'parbeta2', [('Zdtr_', 'bx_base_parbeta1.bx_base_parbeta.Zdtr'), ('Qbeta_', 'bx_base_parbeta1.bx_base_parbeta.Qbeta'), ('kf_', 'kf'),
                                                     ('c1_', 'bx_base_parbeta1.c1'), ('c2_', 'bx_base_parbeta1.c2'), ('c3_', 'bx_base_parbeta1.c3'), ('c4_', 'bx_base_parbeta1.c4')]),
}


def build_wrapper_query(db, wname, propid='C01'):
    """the public wrapper packs its arguments into the parameter block and forwards the rest unchanged: the worker is
    replaced by a stub that asserts exactly that (this is the reference's  z=Zdtr; q=Qbeta; c1h=c1 ...  prologue)"""
    import oblig, extract
    worker, struct, fmap = WRAPPERS[wname]
    T = db['types']
    fw = db['funcs'][wname]
    fk = db['funcs'][worker]
    pr = bx2c.Printer(T, bx2c.Opts())
    th, _ = extract.types_h(db)
    parts = ['#include "bx_shim.h"', th, '#include "bx_shim_fn.h"', extract.protos_h(db), 'int bx_exc; unsigned long g_draws;',
             'double nondet_double(void); int nondet_int(void);']
    wp = [(p[1], T.c(p[2].replace('&', '')) if not p[3] else T.c(p[2])) for p in fw.params]
    G = []
    for nm, ct in wp:
        if ct in ('double', 'int'):
            G.append('static %s w_%s;' % (ct, nm))
    G.append('static double *w_tdnuc; static bx_prng w_rng; static struct event w_ev; static int w_called;')
    parts += G
    kp = [p[1] for p in fk.params]   # prng_, event_, tcnuc_, thnuc_, tdnuc_, params_
    L = [pr.signature(fk), '{', '  w_called = w_called + 1;']
    tag = '%s wrapper %s' % (propid, wname)
    for wpar, fld in fmap:
        L.append('  __CPROVER_assert(((struct %s *)%s)->%s == w_%s, "%s: argument %s reaches the parameter block field %s");' % (struct, kp[5], fld, wpar, tag, wpar, fld.split('.')[-1]))
    L.append('  __CPROVER_assert(%s == w_tcnuc_ && %s == w_thnuc_, "%s: tcnuc and thnuc are forwarded unchanged");' % (kp[2], kp[3], tag))
    L.append('  __CPROVER_assert(%s == w_tdnuc && %s == &w_rng && %s == &w_ev, "%s: the deviate source, the event and the out-parameter are forwarded");' % (kp[4], kp[0], kp[1], tag))
    L.append('}')
    parts.append('\n'.join(L))
    for c in sorted(fw.calls):
        if c != worker and c in db['funcs'] and c.endswith('__ctor'):
            parts.append(pr.function(db['funcs'][c]))
    parts.append(pr.function(fw))
    H = ['void harness(void)', '{', '  double td; w_tdnuc = &td; w_called = 0; bx_exc = 0;']
    args = []
    for nm, ct in wp:
        if ct == 'double':
            H.append('  w_%s = nondet_double(); __CPROVER_assume(w_%s == w_%s);' % (nm, nm, nm))
            args.append('w_' + nm)
        elif ct == 'int':
            H.append('  w_%s = nondet_int();' % nm)
            args.append('w_' + nm)
        elif 'bx_prng' in ct:
            args.append('&w_rng')
        elif 'event' in ct:
            args.append('&w_ev')
        else:
            args.append('w_tdnuc')
    H.append('  %s(%s);' % (wname, ', '.join(args)))
    H.append('  __CPROVER_assert(w_called == 1, "%s: the worker runs exactly once");' % tag)
    H.append('  __CPROVER_assert(0, "canary %s: harness end is reachable (must be refuted)");' % wname)
    H.append('}')
    parts.append('\n'.join(H))
    return {'c': '\n\n'.join(parts) + '\n', 'entry': 'harness', 'meta': {'function': wname, 'what': 'rel', 'cuts': [], 'reference': 'prologue of ' + wname.replace('decay0_', '')}}


def build_fermi(db, prog, propid='C01'):
    """decay0_fermi (-> decay0_fermi_func_orig, inlined) against the reference fermi(Z,E)"""
    hooks = {'ref': 'fermi', 'inline_x': ('decay0_fermi_func_orig',),
             'custom_stubs_x': {'bx_ext_gsl_strerror': ''}}
    return rel.build_pair_query(db, prog, 'decay0_fermi', propid=propid, hooks=hooks)


def build_tgold(db, prog, propid='C01'):
    """golden-section search: decay0_tgold(a, -, c, f, eps, minmax, &x, &fx, params) against tgold(a,b,f,eps,minmax,x,fx);
    the function under search is the same abstract effect on both sides (same function and closure is the caller's obligation)"""
    pairing = rel.Pairing(db, prog)
    cid = pairing.callee_id('indirect_f')
    pad = ', '.join(['x'] + ['0.0'] * (NA - 1))
    ind = ['static double ind_x(double x, void *p) { int k = tr_x_n; __CPROVER_assert(k < %d, "trace capacity"); tr_x_id[k] = %d; tr_x_arg[k][0] = x; tr_x_n = k + 1; epoch_x = epoch_x + 1; idx_x = 0; return __CPROVER_uninterpreted_out(%d, 99, %s); }' % (rel.NC, cid, cid, pad),
           'static double ind_r(double x) { int k = tr_r_n; __CPROVER_assert(k < %d, "trace capacity"); tr_r_id[k] = %d; tr_r_arg[k][0] = x; tr_r_n = k + 1; epoch_r = epoch_r + 1; idx_r = 0; return __CPROVER_uninterpreted_out(%d, 99, %s); }' % (rel.NC, cid, cid, pad)]
    hooks = {'ref': 'tgold', 'extra_globals': ind, 'extra_setup': ['  x_f_ = ind_x; r_f = ind_r; x_params_ = (void *)0;'],
             'rename_x': {'c': 'b'}, 'skip_vars': {'f', 'params', 'unnamed1'}}
    return rel.build_pair_query(db, prog, 'decay0_tgold', pairing=pairing, propid=propid, hooks=hooks)


def build_table_query(db, prog, cxx_global, ref_common, propid='C01'):
    """a data table of the port against the reference's block data, element by element (relative tolerance 5e-6)"""
    t, init = db['globals'][cxx_global]
    if init.k != 'init':
        raise Unsupported('global %s is not an initialiser list' % cxx_global)
    m = re.match(r'^const double\s*\[(\d+)\]$', t.strip())
    n = int(m.group(1))
    xs_ = [bx2c.P(e, bx2c.Opts()) for e in init.args]
    rs = prog.common_init.get(ref_common)
    if rs is None:
        raise Unsupported('no block data for ' + ref_common)
    parts = ['#include "bx_shim.h"',
             'static const double X[%d] = {%s};' % (n, ', '.join(xs_)),
             'static const double R[%d] = {%s};' % (len(rs), ', '.join(v.lower().replace('d', 'e') for v in rs))]
    H = ['void harness(void)', '{']
    tag = '%s table %s vs reference %s' % (propid, cxx_global, ref_common)
    H.append('  __CPROVER_assert(%d == %d, "%s: same number of entries declared");' % (n, len(rs), tag))
    H.append('  __CPROVER_assert(%d == %d, "%s: every entry has an initialiser (no implicit zero fill)");' % (len(xs_), n, tag))
    for i in range(min(n, len(rs))):
        H.append('  { double d = X[%d] - R[%d]; double s = R[%d] < 0.0 ? -R[%d] : R[%d]; __CPROVER_assert(d <= 5e-6 * s && d >= -5e-6 * s, "%s: entry %d equal");}' % (i, i, i, i, i, tag, i + 1))
    H.append('  __CPROVER_assert(0, "canary table: harness end is reachable (must be refuted)");')
    H.append('}')
    parts.append('\n'.join(H))
    return {'c': '\n\n'.join(parts) + '\n', 'entry': 'harness', 'meta': {'function': cxx_global, 'what': 'rel', 'cuts': [], 'reference': 'block data ' + ref_common}}


def trace_stub(sig, side, cid, args, outs=(), ret=None, na=None):
    """a callee as the same abstract effect on both sides: its identity and arguments go to the call trace, its results
    are uninterpreted functions of the arguments"""
    na = na or NA
    pad = args + ['0.0'] * (na - len(args))
    L = [sig, '{', '  int k = tr_%s_n; __CPROVER_assert(k < %d, "trace capacity"); tr_%s_id[k] = %d;' % (side, rel.NC, side, cid)]
    for j, a in enumerate(args):
        L.append('  tr_%s_arg[k][%d] = %s;' % (side, j, a))
    for o_, (nm, ct) in enumerate(outs):
        L.append('  %s = (%s)__CPROVER_uninterpreted_out(%d, %d, %s);' % (nm, ct, cid, o_, ', '.join(pad[:na])))
    L.append('  tr_%s_n = k + 1; epoch_%s = epoch_%s + 1; idx_%s = 0;' % (side, side, side, side))
    if ret:
        L.append('  return (%s)__CPROVER_uninterpreted_out(%d, 99, %s);' % (ret, cid, ', '.join(pad[:na])))
    L.append('}')
    return '\n'.join(L)


DSHELP_N = 64   # dgmlt1/dgmlt2 evaluate at most 64 abscissae per call


def build_dshelp(db, prog, which, propid='C02', mode=None):
    """decay0_dshelp1/2 (integrand adaptors of the two-electron energy integral) against the reference's dshelp1/2.
    The arrays are harness arrays of DSHELP_N elements with equal contents; the loop counter runs 0..m-1 in the port and
    1..m in the reference (relation r_i == x_i + 1); dgmlt2 / fe12_mod* are the same abstract effect on both sides."""
    old = (rel.NA, rel.NC)
    global NA
    rel.NA = 18     # argument + 17 closure scalars
    rel.NC = 2      # at most one call per segment (small trace arrays: their index is symbolic under the mode guards)
    NA = 18
    try:
        return _build_dshelp(db, prog, which, propid, mode)
    finally:
        rel.NA, rel.NC = old
        NA = old[0]


def _build_dshelp(db, prog, which, propid, mode=None):
    T = db['types']
    cname = 'decay0_dshelp%d' % which
    rname = 'dshelp%d' % which
    pairing = rel.Pairing(db, prog)
    fx = db['funcs'][cname]
    fr = prog.translate(rname)
    pr = bx2c.Printer(T, bx2c.Opts())
    ids = fun_ids(db)
    scal = [f_ for f_ in BB_FIELDS if f_[1]]
    xp = [p[1] for p in fx.params]     # m_, du_, df_, d_el_, params_
    rp = [p[1] for p in fr.params]     # m, du, df, d_el
    ptrs = struct_pointer_locals(fx)
    N = DSHELP_N
    G = ['static struct bbpars xs;', 'static double xa_du[%d], ra_du[%d], xa_df[%d], ra_df[%d], xa_el[2], ra_el[2];' % (N, N, N, N)]
    setup = ['  x_%s = (void *)&xs;' % xp[4]]
    for nm, path in ptrs.items():
        setup.append('  x_%s = %s;' % (nm, path))
    setup.append('  for (int j = 0; j < %d; j++) { double v = nondet_double(); xa_du[j] = v; ra_du[j] = v; double w = nondet_double(); xa_df[j] = w; ra_df[j] = w; }' % N)
    setup.append('  for (int j = 0; j < 2; j++) { double v = nondet_double(); xa_el[j] = v; ra_el[j] = v; }')
    setup.append('  x_%s = xa_du; x_%s = xa_df; x_%s = xa_el; r_%s = ra_du; r_%s = ra_df; r_%s = ra_el;' % (xp[1], xp[2], xp[3], rp[1], rp[2], rp[3]))
    setup.append('  __CPROVER_assume(x_%s >= 0 && x_%s <= %d);   /* dgmlt1/dgmlt2 pass at most 64 abscissae */' % (xp[0], xp[0], N))
    skip = set(rel.norm(n) for n in ptrs) | {rel.norm(n) for n in xp[1:]} | {rel.norm(n) for n in rp[1:]}
    checks = []
    for fld, cm, refs, ct in scal:
        G.append('static %s %s;' % (ct, cm))
        if fld.endswith('denrange.mode') and mode is not None and which == 2:
            # one query per integrand selector (at most one fe12_mod call per iteration then); 'other' = none of the nine
            if mode == 'other':
                setup.append('  { int v = nondet_int(); __CPROVER_assume(%s); xs.%s = v; %s = v; }' % (' && '.join('v != %d' % m_ for m_ in BB_M2), fld, cm))
            else:
                setup.append('  { int v = %d; xs.%s = v; %s = v; }' % (mode, fld, cm))
        else:
            setup.append('  { %s v = nondet_%s(); xs.%s = v; %s = v; }' % (ct, ct, fld, cm))
        checks.append(('closure ' + fld.split('.')[-1], 'bx_same((double)xs.%s, (double)%s)' % (fld, cm)))
    for j in range(N):
        checks.append(('df[%d]' % j, 'bx_same(xa_df[%d], ra_df[%d])' % (j, j)))
    checks.append(('d_el', 'bx_same(xa_el[0], ra_el[0]) && bx_same(xa_el[1], ra_el[1])'))
    checks.append(('du untouched', ' && '.join('bx_same(xa_du[%d], ra_du[%d])' % (j, j) for j in range(N))))
    clos_x = ['(double)((struct bbpars *)PP)->%s' % f_[0] for f_ in scal]
    clos_r = ['(double)%s' % f_[1] for f_ in scal]
    hooks = {'ref': rname, 'skip_vars': skip, 'extra_setup': setup, 'extra_checks': checks, 'extra_globals': G,
             'custom_stubs_x': {}, 'custom_stubs_r': {}, 'offset': {'i': 1},
             'cut_invariants': {'bx_loop1_head': [('loop counter within the arrays', 'x_i >= 0 && x_i <= x_%s' % xp[0])]}}
    if which == 2:
        for c in sorted(fx.calls):
            m = re.match(r'^decay0_(fe\d+_mod\d+)$', c)
            if m:
                gg = db['funcs'][c]
                pn = [p[1] for p in gg.params]
                hooks['custom_stubs_x'][c] = trace_stub(pr.signature(gg), 'x', pairing.callee_id(m.group(1)), ['(double)%s' % pn[0]] + [a.replace('PP', pn[1]) for a in clos_x], ret='double')
        for c in sorted(fr.calls):
            if re.match(r'^fe\d+_mod\d+$', c):
                hooks['custom_stubs_r'][c] = trace_stub('double ref_%s(double e)' % c, 'r', pairing.callee_id(c), ['(double)e'] + clos_r, ret='double')
    else:
        gg = db['funcs']['decay0_dgmlt2']
        pn = [p[1] for p in gg.params]   # f, a, b, ni, ng, x, params
        # dgmlt2 integrates over the second energy: it calls its integrand with x, which stores the abscissa in x[1]
        hooks['custom_stubs_x']['decay0_dgmlt2'] = trace_stub(pr.signature(gg), 'x', pairing.callee_id('dgmlt2'),
                                                             ['(%s == decay0_dshelp2 ? 2.0 : 0.0)' % pn[0], '(double)%s' % pn[1], '(double)%s' % pn[2], '(double)%s' % pn[3], '(double)%s' % pn[4], '(double)%s[0]' % pn[5]] + [a.replace('PP', pn[6]) for a in clos_x],
                                                             outs=[('%s[1]' % pn[5], 'double')], ret='double')
        hooks['extra_globals'].append('void ref_dshelp2(int m, double *du2, double *df2, double *d_el);')
        hooks['custom_stubs_r']['dgmlt2'] = trace_stub('double ref_dgmlt2(void (*f)(int, double *, double *, double *), double a, double b, int ni, int ng, double *x)', 'r', pairing.callee_id('dgmlt2'),
                                                       ['(f == ref_dshelp2 ? 2.0 : 0.0)', '(double)a', '(double)b', '(double)ni', '(double)ng', '(double)x[0]'] + clos_r,
                                                       outs=[('x[1]', 'double')], ret='double')
        hooks['custom_stubs_x']['decay0_dshelp2'] = pr.signature(db['funcs']['decay0_dshelp2']) + '\n{\n}'
        hooks['custom_stubs_r']['dshelp2'] = 'void ref_dshelp2(int m, double *du2, double *df2, double *d_el)\n{\n}'
    return rel.build_pair_query(db, prog, cname, pairing=pairing, propid=propid, hooks=hooks)


# ----------------------------------------------------------------------------------------------
# decay0_bb against the reference bb(modebb,Qbb,Edlevel,EK,Zdbb,Adbb,istartbb)
# ----------------------------------------------------------------------------------------------

BB_FIELDS = [
    # struct field path, common slot (or None), reference dummy/local names, C type
    ('bx_base_enrange.ebb1', 'cm_enrange_0', [], 'double'), ('bx_base_enrange.ebb2', 'cm_enrange_1', [], 'double'),
    ('bx_base_enrange.toallevents', 'cm_enrange_2', [], 'double'),
    ('bx_base_denrange.dens', 'cm_denrange_0', [], 'double'), ('bx_base_denrange.denf', 'cm_denrange_1', [], 'double'),
    ('bx_base_denrange.mode', 'cm_denrange_2', [], 'int'),
    ('bx_base_helpbb.Zd', 'cm_helpbb_0', [], 'double'), ('bx_base_helpbb.Ad', 'cm_helpbb_1', [], 'double'),
    ('bx_base_helpbb.e0', 'cm_helpbb_2', [], 'double'), ('bx_base_helpbb.e1', 'cm_helpbb_3', [], 'double'),
    ('bx_base_eta_nme.chi_GTw', 'cm_eta_nme_0', [], 'double'), ('bx_base_eta_nme.chi_Fw', 'cm_eta_nme_1', [], 'double'),
    ('bx_base_eta_nme.chip_GT', 'cm_eta_nme_2', [], 'double'), ('bx_base_eta_nme.chip_F', 'cm_eta_nme_3', [], 'double'),
    ('bx_base_eta_nme.chip_T', 'cm_eta_nme_4', [], 'double'), ('bx_base_eta_nme.chip_P', 'cm_eta_nme_5', [], 'double'),
    ('bx_base_eta_nme.chip_R', 'cm_eta_nme_6', [], 'double'),
    ('modebb', None, ['modebb'], 'int'), ('Qbb', None, ['qbb'], 'double'), ('Edlevel', None, ['edlevel'], 'double'),
    ('EK', None, ['ek'], 'double'), ('Zdbb', None, ['zdbb'], 'double'), ('Adbb', None, ['adbb'], 'double'),
    ('istartbb', None, ['istartbb'], 'int'), ('spmax', None, ['spmax'], 'double'),
]
BB_ARRAYS = {'spthe1': 1, 'spthe2': 2}
BB_M2 = (4, 5, 6, 8, 13, 14, 15, 16, 19)   # modes with a sampled second energy


def bb_plan():
    """(cut index, legacy mode) pairs of the decay0_bb proof: one query per cut point and mode; a cut point that a mode
    cannot reach (asserted on arrival by the mode invariants of the cut) has no query for that mode"""
    out = []
    for k in range(len(BB_CUTS) + 1):
        name = (['entry'] + BB_CUTS)[k]
        for m in range(1, 21):
            if k > 0 and m in (9, 11, 12):
                continue      # fixed-energy modes return from the entry segment
            if name == 'label_4' and m != 20:
                continue
            if name in ('bx_loop3_head', 'label_2') and m not in BB_M2:
                continue
            if name == 'label_3' and m in (10, 20):
                continue
            out.append((k, name, m))
    return out


BB_CUTS = ['bx_loop1_head', 'bx_loop2_head', 'label_1', 'label_4', 'bx_loop3_head', 'label_2', 'label_3']
WL = 6   # array writes per segment


def rewrite_arrays(body, side):
    """accesses to the 1-keV spectrum tables become abstract memory operations: a write is logged (array, index, value),
    a read returns the most recent logged write of this segment or the shared base content"""
    E, S = bx2c.E, bx2c.S

    def arr_of(e):
        if e.k == 'index':
            a = e.a
            while a.k == 'paren':
                a = a.a
            if a.k == 'var' and a.name in BB_ARRAYS:
                return BB_ARRAYS[a.name], e.b
        return None

    def fe(e):
        if e is None or not isinstance(e, E):
            return e
        if e.k == 'assign':
            t = arr_of(e.a)
            if t and e.op == '=':
                return E('call', a='bx_arr_write_' + side, args=[E('ilit', name=str(t[0])), fe(t[1]), fe(e.b)])
        t = arr_of(e)
        if t:
            return E('call', a='bx_arr_read_' + side, args=[E('ilit', name=str(t[0])), fe(t[1])])
        for a in ('a', 'b', 'c'):
            x = getattr(e, a)
            if isinstance(x, E):
                setattr(e, a, fe(x))
        if e.args:
            e.args = [fe(x) for x in e.args]
        return e

    def fs(s):
        for a in ('cond', 'e', 'inc', 'value'):
            x = getattr(s, a, None)
            if isinstance(x, E):
                setattr(s, a, fe(x))
        if s.kind == 'decl' and isinstance(getattr(s, 'init', None), E):
            s.init = fe(s.init)
        for y in getattr(s, 'items', []) or []:
            fs(y)
        for a in ('then', 'els', 'stmt', 'body', 'init'):
            y = getattr(s, a, None)
            if isinstance(y, S):
                fs(y)
        return s
    return fs(body)


ARR_SUPPORT = '''
double __CPROVER_uninterpreted_arrbase(int, int);
static int wl_x_n, wl_r_n; static int wl_x_id[%(WL)d], wl_r_id[%(WL)d], wl_x_ix[%(WL)d], wl_r_ix[%(WL)d]; static double wl_x_v[%(WL)d], wl_r_v[%(WL)d];
static double bx_arr_write_x(int id, int ix, double v) { __CPROVER_assert(wl_x_n < %(WL)d, "array write log capacity"); wl_x_id[wl_x_n] = id; wl_x_ix[wl_x_n] = ix; wl_x_v[wl_x_n] = v; wl_x_n = wl_x_n + 1; return v; }
static double bx_arr_write_r(int id, int ix, double v) { __CPROVER_assert(wl_r_n < %(WL)d, "array write log capacity"); wl_r_id[wl_r_n] = id; wl_r_ix[wl_r_n] = ix; wl_r_v[wl_r_n] = v; wl_r_n = wl_r_n + 1; return v; }
static double bx_arr_read_x(int id, int ix) { for (int k = %(WL)d - 1; k >= 0; k--) if (k < wl_x_n && wl_x_id[k] == id && wl_x_ix[k] == ix) return wl_x_v[k]; return __CPROVER_uninterpreted_arrbase(id, ix); }
static double bx_arr_read_r(int id, int ix) { for (int k = %(WL)d - 1; k >= 0; k--) if (k < wl_r_n && wl_r_id[k] == id && wl_r_ix[k] == ix) return wl_r_v[k]; return __CPROVER_uninterpreted_arrbase(id, ix); }
'''

EVREC = '''
#define BX_EVN 6
static int ref_ev_npfull, ref_n0; static int re_code[BX_EVN]; static double re_time[BX_EVN]; static double re_mom[BX_EVN][3];
static void ref_set_npgeant(int n, int v) { int j = n - ref_n0 - 1; __CPROVER_assert(j >= 0 && j < BX_EVN, "reference event record capacity"); re_code[j] = v; }
static void ref_set_pmoment(int k, int n, double v) { int j = n - ref_n0 - 1; __CPROVER_assert(j >= 0 && j < BX_EVN && k >= 1 && k <= 3, "reference event record capacity"); re_mom[j][k - 1] = v; }
static void ref_set_ptime(int n, double v) { int j = n - ref_n0 - 1; __CPROVER_assert(j >= 0 && j < BX_EVN, "reference event record capacity"); re_time[j] = v; }
static int xe_n; static int xe_code[BX_EVN]; static double xe_time[BX_EVN]; static double xe_mom[BX_EVN][3];
'''


def fun_ids(db):
    ids = {}
    for n in sorted(db['funcs']):
        m = re.match(r'^decay0_(fe\d+_mod\d+|dshelp\d)$', n)
        if m:
            ids[m.group(1)] = len(ids) + 1
    return ids


def build_bb(db, prog, propid='C02', only=None, mode=None):
    E, S = bx2c.E, bx2c.S
    old = (rel.NA, )
    rel.NA = 24
    global NA
    NA = 24
    try:
        return _build_bb(db, prog, propid, only, mode)
    finally:
        rel.NA = old[0]
        NA = old[0]


def _build_bb(db, prog, propid, only=None, mode=None):
    T = db['types']
    pairing = rel.Pairing(db, prog)
    fx = db['funcs']['decay0_bb']
    fr = prog.translate('bb')
    ids = fun_ids(db)
    scal = [f_ for f_ in BB_FIELDS]
    clos_x = ['(double)((struct bbpars *)PP)->%s' % f_[0] for f_ in scal if f_[1]]
    clos_r = ['(double)%s' % f_[1] for f_ in scal if f_[1]]
    ptrs = struct_pointer_locals(fx)
    setup = ['  __CPROVER_assume(xs.modebb >= 1 && xs.modebb <= 20);   /* genbbsub passes a legacy mode 1..20 (C06) */'] if False else []
    setup += ['  x_params_ = (void *)&xs; wl_x_n = 0; wl_r_n = 0; xe_n = 0; ref_n0 = nondet_int(); __CPROVER_assume(ref_n0 >= 0 && ref_n0 <= 50); ref_ev_npfull = ref_n0;']
    for nm, path in ptrs.items():
        if nm in BB_ARRAYS:
            continue
        setup.append('  x_%s = %s;' % (nm, path))
    ref_names = {rel.norm(p[1]) for p in fr.params} | {rel.norm(l[1]) for l in fr.locals}
    checks = []
    skip = set(rel.norm(n) for n in ptrs) | set(BB_ARRAYS)
    G = ['static struct bbpars xs;', ARR_SUPPORT % {'WL': WL}, EVREC]
    byref = {rel.norm(p[1]) for p in fr.params if p[3]}
    cxx_locals = {rel.norm(l[1]): l for l in fx.locals}
    for fld, cm, refs, ct in scal:
        targets = ['xs.%s' % fld] + ([cm] if cm else [])
        for r_ in refs:
            if r_ in cxx_locals and rel.norm(cxx_locals[r_][1]) not in [rel.norm(n_) for n_ in ptrs] and '&' not in cxx_locals[r_][0] and '*' not in cxx_locals[r_][0]:
                targets.append('x_%s' % cxx_locals[r_][1])   # a by-value copy of the field in the C++ routine
            if r_ in ref_names:
                if r_ in byref:
                    G.append('static %s pr_%s;' % (ct, r_))
                    setup.append('  r_%s = &pr_%s;' % (r_, r_))
                    targets.append('pr_%s' % r_)
                else:
                    targets.append('r_%s' % r_)
            skip.add(r_)
        if cm:
            G.append('static %s %s;' % (ct, cm))
        if fld == 'modebb' and mode is not None:
            # one query per legacy mode: the mode is a constant, the other 19 branches fold away
            setup.append('  { int v = %d; %s }' % (mode, ' '.join('%s = v;' % t for t in targets)))
        else:
            setup.append('  { %s v = nondet_%s(); %s }' % (ct, ct, ' '.join('%s = v;' % t for t in targets)))
        for t in targets[1:]:
            checks.append(('state ' + fld.split('.')[-1], 'bx_same((double)xs.%s, (double)%s)' % (fld, t)))
    # array write logs and appended particles
    checks.append(('array writes (count)', 'wl_x_n == wl_r_n'))
    for k in range(WL):
        checks.append(('array write #%d' % (k + 1), '(%d >= wl_x_n || %d >= wl_r_n || (wl_x_id[%d] == wl_r_id[%d] && wl_x_ix[%d] == wl_r_ix[%d] && bx_same(wl_x_v[%d], wl_r_v[%d])))' % ((k,) * 8)))
    checks.append(('particles appended directly (count)', 'xe_n == ref_ev_npfull - ref_n0'))
    for k in range(2):
        checks.append(('particle appended directly #%d' % (k + 1),
                       '(%d >= xe_n || (xe_code[%d] == re_code[%d] && bx_same(xe_time[%d], re_time[%d]) && bx_same(xe_mom[%d][0], re_mom[%d][0]) && bx_same(xe_mom[%d][1], re_mom[%d][1]) && bx_same(xe_mom[%d][2], re_mom[%d][2])))' % ((k,) * 11)))
    setup.append('  __CPROVER_assume(xs.modebb >= 1 && xs.modebb <= 20);   /* genbbsub passes a legacy mode 1..20 (C06) */')
    hooks = {'ref': 'bb', 'skip_vars': skip, 'extra_setup': setup, 'extra_checks': checks, 'extra_globals': G,
             'custom_stubs_x': {}, 'custom_stubs_r': {}, 'event_record': True,
             'transform_x': lambda b: rewrite_arrays(b, 'x'), 'transform_r': lambda b: rewrite_arrays(b, 'r'),
             'inline_x': ('particle__ctor', 'particle__set_time', 'particle__set_code', 'particle__set_momentum', 'particle__set_px',
                          'particle__set_py', 'particle__set_pz'),
             'cutmap': {'bx_loop4_head': 'label_2', 'bx_loop5_head': 'label_3'},
             'rename_x': {'imax': 'bx_dohi1'},
             'assume_no_exc': 'the NaN guard on e2 in decay0_bb does not fire (finite bbpars; the reference has no such guard)',
             'dead_at': {'bx_loop3_head': ['e2'], 'label_2': ['e2', 'fe2'], '@exit': ['e2']},
             'cut_invariants': {}}
    zinv = ('helpbb.Zd == Zdbb (set on entry of every call)', 'bx_same(xs.bx_base_helpbb.Zd, xs.Zdbb)', 'xs.bx_base_helpbb.Zd = xs.Zdbb; cm_helpbb_0 = xs.Zdbb;')
    for l_ in BB_CUTS:
        hooks['cut_invariants'][l_] = [zinv]
    m2 = (4, 5, 6, 8, 13, 14, 15, 16, 19)
    for l_ in ('bx_loop3_head', 'label_2'):
        hooks['cut_invariants'][l_].append(('only the modes with a sampled second energy get here', '(' + ' || '.join('xs.modebb == %d' % m_ for m_ in m2) + ')'))
    hooks['cut_invariants']['label_4'].append(('only mode 20 gets here', 'xs.modebb == 20'))
    for l_ in ('bx_loop1_head', 'bx_loop2_head'):
        hooks['cut_invariants'][l_].append(('imax == (int)(e0*1000.) on both sides', 'x_imax == (int)bx_mul(xs.bx_base_helpbb.e0, 1000.0) && r_bx_dohi1 == x_imax'))
    pr = bx2c.Printer(T, bx2c.Opts())
    # event_.add_particle(part): the C++ side of "append to the event record"
    g = db['funcs']['event__add_particle']
    hooks['custom_stubs_x']['event__add_particle'] = pr.signature(g) + '\n{\n  __CPROVER_assert(xe_n < BX_EVN, "event record capacity"); xe_code[xe_n] = p_->_code_; xe_time[xe_n] = p_->_time_; xe_mom[xe_n][0] = p_->_momentum_[0]; xe_mom[xe_n][1] = p_->_momentum_[1]; xe_mom[xe_n][2] = p_->_momentum_[2]; xe_n = xe_n + 1;\n}'

    def stub(sig, side, cid, args, outs=(), ret=None):
        pad = args + ['0.0'] * (NA - len(args))
        L = [sig, '{', '  int k = tr_%s_n; __CPROVER_assert(k < %d, "trace capacity"); tr_%s_id[k] = %d;' % (side, rel.NC, side, cid)]
        for j, a in enumerate(args):
            L.append('  tr_%s_arg[k][%d] = %s;' % (side, j, a))
        for o_, (nm, ct) in enumerate(outs):
            L.append('  *%s = (%s)__CPROVER_uninterpreted_out(%d, %d, %s);' % (nm, ct, cid, o_, ', '.join(pad[:NA])))
        L.append('  tr_%s_n = k + 1; epoch_%s = epoch_%s + 1; idx_%s = 0;' % (side, side, side, side))
        if ret:
            L.append('  return (%s)__CPROVER_uninterpreted_out(%d, 99, %s);' % (ret, cid, ', '.join(pad[:NA])))
        L.append('}')
        return '\n'.join(L)
    # closure functions fe*_mod*, dshelp*
    for c in sorted(fx.calls):
        m = re.match(r'^decay0_(fe\d+_mod\d+)$', c)
        if m:
            gg = db['funcs'][c]
            cid = pairing.callee_id(m.group(1))
            pn = [p[1] for p in gg.params]
            hooks['custom_stubs_x'][c] = stub(pr.signature(gg), 'x', cid, ['(double)%s' % pn[0]] + [a.replace('PP', pn[1]) for a in clos_x], ret='double')
    for c in sorted(fr.calls):
        if re.match(r'^fe\d+_mod\d+$', c):
            cid = pairing.callee_id(c)
            hooks['custom_stubs_r'][c] = stub('double ref_%s(double e)' % c, 'r', cid, ['(double)e'] + clos_r, ret='double')

    def fid_x(v):
        return '(' + ' : '.join('%s == decay0_%s ? %d.0' % (v, n, k) for n, k in ids.items()) + ' : 0.0)'

    def fid_r(v, names):
        return '(' + ' : '.join('%s == ref_%s ? %d.0' % (v, n, ids[n]) for n in names if n in ids) + ' : 0.0)'
    rfuncs = sorted(n for n in ids if n in fr.calls or n in fr.ref_unit.externals)
    protos_r = '\n'.join('double ref_%s(double e);' % n for n in rfuncs if n.startswith('fe')) + '\nvoid ref_dshelp1(int m, double *du1, double *df1, double *d_el);'
    # gauss
    gg = db['funcs']['decay0_gauss']
    pn = [p[1] for p in gg.params]
    hooks['custom_stubs_x']['decay0_gauss'] = stub(pr.signature(gg), 'x', pairing.callee_id('gauss'),
                                                  [fid_x(pn[0]), '(double)%s' % pn[1], '(double)%s' % pn[2], '(double)%s' % pn[3]] + [a.replace('PP', pn[4]) for a in clos_x], ret='double')
    hooks['extra_globals'].append(protos_r)
    hooks['custom_stubs_r']['gauss'] = stub('double ref_gauss(double (*f)(double), double a, double b, double eps)', 'r', pairing.callee_id('gauss'),
                                                              [fid_r('f', rfuncs), '(double)a', '(double)b', '(double)eps'] + clos_r, ret='double')
    # tgold
    gg = db['funcs']['decay0_tgold']
    pn = [p[1] for p in gg.params]
    hooks['custom_stubs_x']['decay0_tgold'] = stub(pr.signature(gg), 'x', pairing.callee_id('tgold'),
                                                  ['(double)%s' % pn[0], '(double)%s' % pn[2], '(double)%s' % pn[4], '(double)%s' % pn[5], fid_x(pn[3])] + [a.replace('PP', pn[8]) for a in clos_x],
                                                  outs=[(pn[6], 'double'), (pn[7], 'double')])
    hooks['custom_stubs_r']['tgold'] = stub('void ref_tgold(double a, double b, double (*f)(double), double eps, int minmax, double *xextr, double *fextr)', 'r', pairing.callee_id('tgold'),
                                            ['(double)a', '(double)b', '(double)eps', '(double)minmax', fid_r('f', rfuncs)] + clos_r, outs=[('xextr', 'double'), ('fextr', 'double')])
    # dgmlt1(dshelp1, a, b, ni, ng, x, params)
    gg = db['funcs']['decay0_dgmlt1']
    pn = [p[1] for p in gg.params]
    hooks['custom_stubs_x']['decay0_dgmlt1'] = stub(pr.signature(gg), 'x', pairing.callee_id('dgmlt1'),
                                                   ['(%s == decay0_dshelp1 ? 1.0 : 0.0)' % pn[0], '(double)%s' % pn[1], '(double)%s' % pn[2], '(double)%s' % pn[3], '(double)%s' % pn[4]] + [a.replace('PP', pn[6]) for a in clos_x], ret='double')
    hooks['custom_stubs_r']['dgmlt1'] = stub('double ref_dgmlt1(void (*f)(int, double *, double *, double *), double a, double b, int ni, int ng, double x)', 'r', pairing.callee_id('dgmlt1'),
                                             ['(f == ref_dshelp1 ? 1.0 : 0.0)', '(double)a', '(double)b', '(double)ni', '(double)ng'] + clos_r, ret='double')
    hooks['custom_stubs_r']['dshelp1'] = ''
    hooks['custom_stubs_x']['decay0_dshelp1'] = ''
    for n in rfuncs:
        hooks['custom_stubs_r'].setdefault(n, '')
    return rel.build_pair_query(db, prog, 'decay0_bb', pairing=pairing, propid=propid, hooks=hooks, only=only)

#!/usr/bin/env python3
"""extract.py -- run bx2c over the plumbing translation units of /repo/bxdecay0 and store the result
(function IRs, struct layouts, prototypes) under build/cxx/.  Rebuilt from /repo's working tree on every
run; clang AST dumps are cached by content hash of the TU and of all bxdecay0 headers."""
import os, sys, pickle, hashlib, json, time, traceback
sys.path.insert(0, os.path.dirname(os.path.abspath(__file__)))
import bx2c
from concurrent.futures import ProcessPoolExecutor

VERIF = os.path.dirname(os.path.dirname(os.path.abspath(__file__)))
REPO = bx2c.REPO
BUILD = os.path.join(VERIF, 'build')
# porcelain translation units: STL containers / iostream / pimpl -- outside the C subset (DESIGN section 1)
PORCELAIN = {'decay0_generator', 'event_reader', 'dbd_gA', 'bb_utils', 'std_random', 'resource', 'relocatable_lib'}
# Y90.cc is not compiled by CMake (Y90_1.cc is)
NOT_BUILT = {'Y90'}


def plumbing_files():
    d = os.path.join(REPO, 'bxdecay0')
    out = []
    for f in sorted(os.listdir(d)):
        if f.endswith('.cc') and f[:-3] not in PORCELAIN and f[:-3] not in NOT_BUILT:
            out.append(os.path.join(d, f))
    return out


def work(path):
    res = {'file': os.path.basename(path), 'funcs': {}, 'bad': [], 'records': {}, 'typedefs': {}, 'enums': [], 'globals': {}}
    try:
        tu = bx2c.TU(path, os.path.join(BUILD, 'ast'))
    except Exception as e:
        res['bad'].append(('*', 'TU: ' + repr(e)[:500]))
        return res
    for n in tu.function_defs():
        if not tu.in_main_file(n):
            continue
        try:
            fn = tu.render_function(n)
            fn.src_sha = hashlib.sha256((bx2c.Printer(tu.types, bx2c.Opts()).function(fn)).encode()).hexdigest()[:16]
            res['funcs'][fn.name] = fn
        except bx2c.Unsupported as e:
            res['bad'].append((tu.cname.get(n['id'], n.get('name')), str(e)[:300]))
        except Exception:
            res['bad'].append((tu.cname.get(n['id'], n.get('name')), 'CRASH ' + traceback.format_exc()[-600:]))
    try:
        for fn in tu.synth_ctors():
            fn.src_sha = ''
            fn.synth = True
            res['funcs'][fn.name] = fn
    except bx2c.Unsupported as ex:
        res['bad'].append(('implicit ctor', str(ex)))
    for cn, (bases, fields) in tu.records.items():
        res['records'][cn] = (bases, [(t, nm, None) for (t, nm, node) in fields])
    res['typedefs'] = dict(tu.types.typedefs)
    res['enums'] = sorted(tu.types.enums)
    res['recnames'] = dict(tu.types.records)
    # file-scope variables defined in this TU (tables such as plog69)
    for did, (cn, t, node) in tu.globals.items():
        if tu.in_main_file(node) or 'const' in t:
            ini = [x for x in bx2c.inner(node) if x.get('kind')]
            if ini:
                try:
                    r = bx2c.FuncRenderer(tu, node)
                    e = r.expr(ini[0])
                    res['globals'][cn] = (t, e)
                except bx2c.Unsupported as ex:
                    res['bad'].append(('global ' + cn, str(ex)[:200]))
    return res


def extract(jobs=16):
    t0 = time.time()
    files = plumbing_files()
    with ProcessPoolExecutor(jobs) as ex:
        results = list(ex.map(work, files))
    types = bx2c.Types()
    funcs = {}
    bad = []
    records = {}
    globs = {}
    for r in results:
        for k, v in r['funcs'].items():
            if k in funcs and getattr(v, 'synth', False):
                continue
            if k in funcs:
                bad.append((r['file'], k, 'duplicate C name'))
            funcs[k] = v
        for b in r['bad']:
            bad.append((r['file'],) + tuple(b))
        for cn, v in r['records'].items():
            if cn in records and [(a, b) for a, b, c in records[cn][1]] != [(a, b) for a, b, c in v[1]] and v[1]:
                if records[cn][1]:
                    bad.append((r['file'], cn, 'inconsistent record layout'))
            if cn not in records or not records[cn][1]:
                records[cn] = v
        types.typedefs.update(r['typedefs'])
        types.enums.update(r['enums'])
        types.records.update(r.get('recnames', {}))
        globs.update(r['globals'])
    # functions whose class cannot be rendered as a struct are dropped with it
    probe = {'funcs': {}, 'types': types, 'records': records, 'globals': {}}
    _, skipped = types_h(probe)
    for cn, why in skipped:
        for k in [k for k, f in funcs.items() if f.is_method == cn]:
            bad.append((funcs[k].file, k, 'class not renderable: ' + why))
            del funcs[k]
    db = {'funcs': funcs, 'types': types, 'records': records, 'bad': bad, 'globals': globs,
          'files': [os.path.basename(f) for f in files], 'wall_s': time.time() - t0}
    return db


def struct_order(records):
    order = []
    seen = set()

    def visit(cn):
        if cn in seen:
            return
        seen.add(cn)
        bases, fields = records[cn]
        for b in bases:
            if b in records:
                visit(b)
        for (t, nm, _) in fields:
            b = bx2c.strip_cv(t.split('[')[0]).replace('bxdecay0::', '').replace('::', '__')
            if b in records and '*' not in t and '&' not in t:
                visit(b)
        order.append(cn)
    for cn in sorted(records):
        visit(cn)
    return order


def types_h(db):
    T = db['types']
    out = ['/* generated by bx2c from the class definitions in /repo/bxdecay0/*.h -- do not edit */']
    skipped = []
    for cn in struct_order(db['records']):
        bases, fields = db['records'][cn]
        try:
            out += bx2c.render_struct(T, cn, bases, fields, db['records'])
        except bx2c.Unsupported as e:
            skipped.append((cn, str(e)))
            out.append('struct %s; /* not renderable: %s */' % (cn, e))
    for cn in sorted(db['globals']):
        t, ex = db['globals'][cn]
        try:
            d = T.decl(bx2c.strip_cv(t) if '[' not in t else t.replace('const ', ''), cn)
            out.append('static const %s = %s;' % (d, bx2c.P(ex, bx2c.Opts())))
        except bx2c.Unsupported as e:
            skipped.append((cn, str(e)))
    return '\n'.join(out) + '\n', skipped


def protos_h(db):
    T = db['types']
    out = ['/* generated by bx2c: prototypes of every rendered function */']
    for name in sorted(db['funcs']):
        f = db['funcs'][name]
        try:
            out.append(bx2c.Printer(T, bx2c.Opts()).signature(f) + ';')
        except bx2c.Unsupported as e:
            out.append('/* %s: %s */' % (name, e))
    return '\n'.join(out) + '\n'


def main():
    db = extract()
    os.makedirs(os.path.join(BUILD, 'cxx'), exist_ok=True)
    th, skipped = types_h(db)
    open(os.path.join(BUILD, 'cxx', 'types.h'), 'w').write(th)
    open(os.path.join(BUILD, 'cxx', 'protos.h'), 'w').write(protos_h(db))
    pickle.dump(db, open(os.path.join(BUILD, 'cxx', 'db.pickle'), 'wb'))
    print('extracted %d functions from %d files in %.1fs; %d not renderable' % (len(db['funcs']), len(db['files']), db['wall_s'], len(db['bad'])))
    for b in db['bad']:
        print('  not rendered:', b)
    for s in skipped:
        print('  struct skipped:', s)


if __name__ == '__main__':
    main()

#!/usr/bin/env python3
"""replay.py -- replay a CBMC counterexample against the real code (g++ -fsanitize=address,undefined build of
/repo's working tree, driven by the scripted deviates from the trace)."""
import os, sys, json, re, subprocess
sys.path.insert(0, os.path.dirname(os.path.abspath(__file__)))
import native

ASAN_FLAGS = ('-O1', '-g', '-fsanitize=address,undefined', '-fno-omit-frame-pointer', '-fno-sanitize-recover=undefined')


def fmt(devs):
    return ' '.join('%.17g' % d for d in devs)


def parse_events(out):
    evs = []
    cur = None
    for ln in out.split('\n'):
        if ln.startswith('E '):
            m = re.match(r'E n=(\d+) draws=(\d+) exc=(\d+) time=(\S+) gen=(.*)', ln)
            cur = {'n': int(m.group(1)), 'draws': int(m.group(2)), 'exc': int(m.group(3)), 'time': float.fromhex(m.group(4)),
                   'gen': m.group(5), 'particles': []}
            evs.append(cur)
        elif ln.startswith('P ') and cur is not None:
            f = ln.split()
            cur['particles'].append({'code': int(f[1]), 'time': float.fromhex(f[2]), 'p': [float.fromhex(x) for x in f[3:6]]})
    return evs


def event_predicates(ev):
    """the observable parts of C04 on a real event"""
    bad = []
    if ev['exc']:
        bad.append('exception thrown')
    if not (1 <= ev['n'] <= 100):
        bad.append('particle count %d outside [1,100]' % ev['n'])
    last = 0.0
    for i, p in enumerate(ev['particles']):
        if p['code'] not in (1, 2, 3, 47):
            bad.append('particle %d: species %d' % (i, p['code']))
        if not (p['time'] == p['time']) or p['time'] < last or p['time'] == float('inf'):
            bad.append('particle %d: time %r after %r' % (i, p['time'], last))
        else:
            last = p['time']
        if any((x != x) or abs(x) == float('inf') for x in p['p']):
            bad.append('particle %d: non-finite momentum' % i)
    if ev['time'] != 0.0:
        bad.append('event time %r' % ev['time'])
    return bad


MASS = {1: 0.0, 2: 0.51099906, 3: 0.51099906, 47: 3727.417}


def visible_energy(ev):
    e = 0.0
    for p in ev['particles']:
        m = MASS.get(p['code'], 0.0)
        p2 = sum(x * x for x in p['p'])
        e += (p2 + m * m) ** 0.5 - m
        if p['code'] == 2:
            e += 1.02199812
    return e


def dbd_configs_for(fn, level):
    """(isotope, ilevel, mode) triples whose cascade is routine fn at level `level` keV (README daughters, native probing)"""
    import genbb
    rd = genbb.readme_dbd()
    exe = native.build_real()
    out = []
    for iso, (daughter, chain) in rd.items():
        want = (chain.split('+')[1] + 'low') if chain else ((daughter or '') + 'low')
        if want != fn:
            continue
        tasks = ['D %s %d %d 0 1' % (iso, lev, mode) for lev in range(0, 18) for mode in (1, 3, 7, 4, 12, 10)]
        rc, o, e = native.run_tasks(exe, tasks, 'probe')
        cur = None
        for ln in o.split('\n'):
            if ln.startswith('T D'):
                f = ln.split()
                cur = (f[2], int(f[3]), int(f[4]))
            elif ln.startswith('I ier=0') and cur:
                m = re.search(r'levelE=(-?\d+)', ln)
                q = re.search(r'Qbb=(\S+)', ln)
                if m and int(m.group(1)) == level:
                    out.append(cur + (float.fromhex(q.group(1)),))
    return out


def replay(prop, meta, rec):
    fn = meta.get('function')
    devs = rec.get('deviates') or []
    if meta.get('segment') not in (None, 0):
        return {'confirmed': False, 'why': 'counterexample starts at an arbitrary state of cut point %s (inductive step); no entry prefix searched' % meta.get('cut')}
    if meta.get('kind') not in ('nuclide', 'low'):
        return {'confirmed': False, 'why': 'no native driver for %s' % (meta.get('kind') or meta.get('what'))}
    # 1. concretise: CBMC chose the deviates drawn in the routine itself; draws inside its callees were abstracted by
    #    their contracts.  Run the natively compiled rendering with the routine's deviates scripted at the routine's own
    #    draw sites and pseudo-random deviates elsewhere; record the complete deviate sequence.
    import extract
    db = extract.extract()
    rend = native.build_rendered(db)
    exe = native.build_real(ASAN_FLAGS)
    if meta.get('kind') == 'nuclide':
        confs = [None]
    else:
        lv = rec.get('level')
        if lv is None:
            return {'confirmed': False, 'why': 'the counterexample trace carries no level value'}
        confs = dbd_configs_for(fn, int(lv))[:6]
        if not confs:
            return {'confirmed': False, 'why': 'no accepted double-beta configuration reaches %s at level %s keV' % (fn, lv)}
    best = None
    tried = 0
    for conf in confs:
        if conf is None:
            tasks = ['R %s %s %d %d %s' % (fn, fn, seed, len(devs), fmt(devs)) for seed in range(1, 301)]
        else:
            tasks = ['Q %s %d %d %s %d %d %s' % (conf[0], conf[1], conf[2], fn, seed, len(devs), fmt(devs)) for seed in range(1, 121)]
        rc, out, err = native.run_tasks(rend, tasks, 'conc')
        fulls = [[float(x) for x in m.group(1).split()] for m in re.finditer(r'^U \d+(.*)$', out, re.M)]
        if not fulls:
            continue
        # 2. replay the complete sequences on the real code (ASan/UBSan build of the working tree) until one manifests
        for k, full in enumerate(fulls):
            if conf is None:
                task = 'S %s %d %s' % (fn, len(full), fmt(full))
            else:
                task = 'T %s %d %d %d %s' % (conf[0], conf[1], conf[2], len(full), fmt(full))
            # the real driver must use the same LCG seed as the concretisation run (the initialisation phase draws from it)
            seed = k + 1
            task_seeded = task
            rc, out, err = native.run_tasks(exe, [task_seeded], 'replay', seed=seed)
            res = judge(prop, task, rc, out, err, conf)
            tried += 1
            res['callee_internal_seeds_tried'] = tried
            if conf is not None:
                res['configuration'] = {'isotope': conf[0], 'level': conf[1], 'mode': conf[2]}
            if best is None:
                best = res
            if res.get('confirmed'):
                return res
    if best is None:
        return {'confirmed': False, 'why': 'could not concretise the callee-internal deviates'}
    best['callee_internal_seeds_tried'] = tried
    return best


def judge(prop, task, rc, out, err, conf=None):
    res = {'task': task[:2000], 'exit': rc, 'stderr_tail': err[-3000:], 'stdout_tail': out[-1500:]}
    if 'ERROR: AddressSanitizer' in err or 'runtime error' in err:
        res['confirmed'] = prop in ('C08', 'C07')
        res['sanitizer'] = (re.search(r'(ERROR: AddressSanitizer[^\n]*|runtime error[^\n]*)', err) or [None])[0] if True else None
        m = re.search(r'(ERROR: AddressSanitizer[^\n]*|[^\n]*runtime error[^\n]*)', err)
        res['sanitizer'] = m.group(1) if m else None
        return res
    evs = parse_events(out)
    if evs and prop == 'C04':
        bad = event_predicates(evs[0])
        res['predicate_violations'] = bad
        res['confirmed'] = bool(bad)
        return res
    if evs and prop == 'C03' and conf is not None:
        ev = evs[0]
        vis = visible_energy(ev)
        res['visible_energy_MeV'] = vis
        res['Qbb_MeV'] = conf[3]
        if conf[2] in (1, 2, 3, 7, 17, 18):
            res['confirmed'] = abs(vis - conf[3]) > 5.0e-3
        else:
            res['confirmed'] = vis > conf[3] + 5.0e-3
        if res['confirmed']:
            res['predicate_violations'] = ['visible energy %.6f MeV against Q = %.6f MeV (mode %d)' % (vis, conf[3], conf[2])]
        return res
    res['confirmed'] = False
    res['why'] = 'real code ran clean on the counterexample deviates'
    return res


def main(argv):
    rec = json.load(open(argv[0]))
    w = (rec.get('native_replay') or {}).get('witness')
    if (rec.get('meta') or {}).get('what') == 'rel':
        # relational obligation: re-run the differential witness (real routine vs compiled reference) if one was found
        if not w:
            print(json.dumps({'confirmed': False, 'obligation': rec.get('obligation'), 'why': 'no concrete failing input was found for this relational obligation; the file carries the verifier output',
                              'cbmc_cmd': rec.get('cbmc_cmd')}, indent=1))
            return 0
        import diffref
        exe, n = diffref.build()
        p = subprocess.run([exe, 'show', w['routine'], str(w['seed']), str(w['level'])], capture_output=True, text=True)
        print(p.stdout)
        print(json.dumps({'confirmed': p.returncode == 1, 'obligation': rec.get('obligation'), 'witness': {k: w[k] for k in ('routine', 'level', 'seed')}}, indent=1))
        return 1 if p.returncode == 1 else 0
    r = replay(rec['property'], rec['meta'], rec)
    print(json.dumps(r, indent=1)[:6000])
    return 1 if r.get('confirmed') else 0

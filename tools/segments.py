#!/usr/bin/env python3
"""segments.py -- the label machine (DESIGN 2.5).

A rendered function F is rewritten into  int F_seg(int bx_pc)  that runs from cut point bx_pc to the next
cut point (returning its id) or to the function exit (returning BX_EXIT).  Locals and parameters live at
file scope (prefix), so a harness can havoc / relate them.  Structured loops are lowered to label+goto form
first so that every cycle passes a cut point; a segment is then loop-free.
"""
import copy
import bx2c
from bx2c import S, E

BX_EXIT = -1


def lower_loops(s, ctx=None, counter=None):
    """for/while/do -> labels and gotos (break/continue become gotos). Returns a statement."""
    if counter is None:
        counter = [0]
    k = s.kind
    if k == 'block':
        return S('block', items=[lower_loops(x, ctx, counter) for x in s.items], synthetic=s.synthetic)
    if k == 'multi':
        return S('multi', items=[lower_loops(x, ctx, counter) for x in s.items])
    if k == 'if':
        return S('if', cond=s.cond, then=lower_loops(s.then, ctx, counter),
                 els=lower_loops(s.els, ctx, counter) if s.els is not None else None)
    if k == 'label':
        return S('label', name=s.name, stmt=lower_loops(s.stmt, ctx, counter))
    if k in ('for', 'while', 'do'):
        counter[0] += 1
        n = counter[0]
        head = 'bx_loop%d_head' % n
        cont = 'bx_loop%d_cont' % n
        end = 'bx_loop%d_end' % n
        body = lower_loops(s.body, (end, cont), counter)
        notc = E('un', op='!', a=E('paren', a=s.cond), extra='pre') if s.cond is not None else None
        items = []
        if k == 'for':
            if s.init is not None:
                items.append(s.init)
            test = [S('if', cond=notc, then=S('goto', label=end), els=None)] if notc is not None else []
            items.append(S('label', name=head, stmt=S('empty', why='loop head'), loophead=True))
            items += test
            items.append(body)
            items.append(S('label', name=cont, stmt=S('empty', why='')))
            if s.inc is not None:
                items.append(S('expr', e=s.inc))
            items.append(S('goto', label=head))
            items.append(S('label', name=end, stmt=S('empty', why='')))
        elif k == 'while':
            items.append(S('label', name=head, stmt=S('empty', why='loop head'), loophead=True))
            items.append(S('if', cond=notc, then=S('goto', label=end), els=None))
            items.append(body)
            items.append(S('label', name=cont, stmt=S('empty', why='')))
            items.append(S('goto', label=head))
            items.append(S('label', name=end, stmt=S('empty', why='')))
        else:
            items.append(S('label', name=head, stmt=S('empty', why='loop head'), loophead=True))
            items.append(body)
            items.append(S('label', name=cont, stmt=S('empty', why='')))
            items.append(S('if', cond=s.cond, then=S('goto', label=head), els=None))
            items.append(S('label', name=end, stmt=S('empty', why='')))
        return S('block', items=items, synthetic=True, loop=True)
    if k == 'break':
        if ctx is None:
            raise bx2c.Unsupported('break outside a lowered loop (switch?)')
        return S('goto', label=ctx[0])
    if k == 'continue':
        return S('goto', label=ctx[1])
    if k == 'switch':
        # a switch body may contain 'break' that belongs to the switch: keep as is, loops inside get their own ctx
        return S('switch', cond=s.cond, body=lower_switch_body(s.body, ctx, counter))
    if k == 'case':
        return S('case', value=s.value, stmt=lower_loops(s.stmt, None, counter) if False else s.stmt)
    return s


def lower_switch_body(b, ctx, counter):
    # loops directly inside a switch are rare in the plumbing code; refuse rather than mis-handle break
    def has_loop(x):
        if x.kind in ('for', 'while', 'do'):
            return True
        for a in ('items',):
            for y in getattr(x, a, []) or []:
                if has_loop(y):
                    return True
        for a in ('then', 'els', 'stmt', 'body'):
            y = getattr(x, a, None)
            if isinstance(y, S) and has_loop(y):
                return True
        return False
    if has_loop(b):
        raise bx2c.Unsupported('loop inside switch')
    return b


def order_positions(s):
    """textual order of labels and gotos: list of ('label'|'goto', name)"""
    out = []

    def rec(x):
        k = x.kind
        if k == 'label':
            out.append(('label', x.name))
            rec(x.stmt)
        elif k == 'goto':
            out.append(('goto', x.label))
        else:
            for a in ('items',):
                for y in getattr(x, a, []) or []:
                    rec(y)
            for a in ('init', 'then', 'els', 'stmt', 'body'):
                y = getattr(x, a, None)
                if isinstance(y, S):
                    rec(y)
    rec(s)
    return out


def backward_targets(body):
    pos = order_positions(body)
    seen = set()
    back = []
    for kind, name in pos:
        if kind == 'label':
            seen.add(name)
        elif name in seen and name not in back:
            back.append(name)
    return back


def has_structured_loop(s):
    if s.kind in ('for', 'while', 'do'):
        return True
    for a in ('items',):
        for y in getattr(s, a, []) or []:
            if has_structured_loop(y):
                return True
    for a in ('then', 'els', 'stmt', 'body'):
        y = getattr(s, a, None)
        if isinstance(y, S) and has_structured_loop(y):
            return True
    return False


class SegPrinter(bx2c.Printer):
    """prints F_seg: cut labels split the body; gotos to cuts and returns become 'return id'"""

    def __init__(self, types, opts, cuts, maythrow=None, retvar=None):
        super().__init__(types, opts, maythrow)
        self.cuts = cuts          # label name -> id (>0)
        self.retvar = retvar

    def zero(self):
        return 'return %d;' % BX_EXIT

    def stmt(self, s, ind):
        k = s.kind
        L = self.lines
        if k == 'goto' and s.label in self.cuts:
            L.append('%sreturn %d; /* goto %s */' % (ind, self.cuts[s.label], s.label))
            return
        if k == 'label' and s.name in self.cuts:
            L.append('%sreturn %d; /* arrive at %s */' % (ind, self.cuts[s.name], s.name))
            L.append('%sbx_entry_%s: ;' % (ind[:-2] if len(ind) >= 2 else ind, s.name))
            self.stmt(s.stmt, ind)
            return
        if k == 'return':
            if s.e is not None:
                L.append('%s{ %s = %s; return %d; }' % (ind, self.retvar, bx2c.P(s.e, self.o), BX_EXIT))
            else:
                L.append('%sreturn %d;' % (ind, BX_EXIT))
            return
        if k == 'throw':
            L.append('%s{ bx_exc = 1; return %d; }' % (ind, BX_EXIT))
            return
        super().stmt(s, ind)


def segment_function(f, types, opts, cuts, maythrow=None, segname=None):
    """returns (file-scope declarations text, F_seg text). cuts: ordered list of label names."""
    assert opts.hoist
    body = lower_loops(copy.deepcopy(f.body)) if has_structured_loop(f.body) else f.body
    ids = {name: i + 1 for i, name in enumerate(cuts)}
    pfx = opts.prefix
    decls = []
    seen = set()
    for (pre, nm, t, isref) in f.params:
        if pre is not None:
            decls.append('%s;' % pre.replace('this_', pfx + 'this_'))
        else:
            decls.append('%s;' % types.decl(t, pfx + nm))
        seen.add(nm)
    for (t, nm, did) in f.locals:
        if nm in seen:
            continue
        seen.add(nm)
        tt = t
        if types.is_ostream(t):
            continue
        d = types.decl(bx2c.strip_cv(tt) if '[' not in tt and '(*)' not in tt else tt.replace('const ', ''), pfx + nm)
        decls.append(d + ';')
    retvar = None
    if f.ret != 'void':
        retvar = pfx + 'bx_ret'
        decls.append('%s %s;' % (f.ret, retvar))
    pr = SegPrinter(types, opts, ids, maythrow, retvar)
    pr.fn = f
    name = segname or (opts.fnprefix + f.name + '_seg')
    L = ['int %s(int bx_pc)' % name, '{']
    L.append('  switch (bx_pc) {')
    L.append('  case 0: goto bx_entry_0;')
    for nm, i in ids.items():
        L.append('  case %d: goto bx_entry_%s;' % (i, nm))
    L.append('  default: return %d;' % (BX_EXIT - 1))
    L.append('  }')
    L.append('bx_entry_0: ;')
    pr.lines = []
    pr.stmt(body, '  ')
    L += pr.lines
    L.append('  return %d;' % BX_EXIT)
    L.append('}')
    # check that every cut label was found in the body
    txt = '\n'.join(L)
    for nm in ids:
        if ('bx_entry_%s: ;' % nm) not in txt:
            raise bx2c.Unsupported('cut label %s not found in %s' % (nm, f.name))
    return '\n'.join(decls), txt, ids

#!/usr/bin/env python3
"""oblig.py -- obligation generator: contracts (contracts/*.spec) + rendered functions -> CBMC queries."""
import os, re, sys, json, hashlib
sys.path.insert(0, os.path.dirname(os.path.abspath(__file__)))
import bx2c, extract, segments

VERIF = extract.VERIF
CONTRACTS = os.path.join(VERIF, 'contracts')


# ----------------------------------------------------------------------------------------------
# spec parsing
# ----------------------------------------------------------------------------------------------

class Contract:
    def __init__(self, name):
        self.name = name
        self.level = None
        self.requires = []
        self.ensures = []
        self.assigns = []   # (type, lvalue)
        self.req_asp = []
        self.ens_asp = []
        self.asg_asp = []
        self.extra = {}
        self.src = None

    def text(self):
        return '\n'.join(['requires: ' + r for r in self.requires] + ['ensures: ' + e for e in self.ensures]
                         + ['assigns: %s:%s' % a for a in self.assigns])


def parse_spec(path, contracts=None, consts=None):
    contracts = {} if contracts is None else contracts
    consts = {} if consts is None else consts
    cur = None
    for ln in open(path):
        s = ln.strip()
        if not s or s.startswith('#'):
            continue
        if s.startswith('@const'):
            _, k, v = s.split(None, 2)
            consts[k] = v
            continue
        if s.startswith('@function'):
            cur = Contract(s.split()[1])
            cur.src = os.path.basename(path)
            contracts[cur.name] = cur
            continue
        if s.startswith('@level'):
            cur.level = s.split()[1]
            continue
        m = re.match(r'^(\w+)(?:\[(\w+)\])?:\s*(.*)$', s)
        if not m:
            raise ValueError('spec syntax: ' + s)
        key, asp, val = m.group(1), m.group(2), m.group(3)
        if key == 'requires':
            cur.requires.append(val)
            cur.req_asp.append(asp)
        elif key == 'ensures':
            cur.ensures.append(val)
            cur.ens_asp.append(asp)
        elif key == 'assigns':
            t, lv = val.split(':', 1)
            cur.assigns.append((t.strip(), lv.strip()))
            cur.asg_asp.append(asp)
        elif key == 'same_as':
            parts = val.split()
            other = contracts[parts[0]]
            ren = {}
            for p in parts[1:]:
                mine, theirs = p.split('=')
                ren[theirs] = mine

            def rn(x):
                for a, b in ren.items():
                    x = re.sub(r'\b%s\b' % re.escape(a), b, x)
                return x
            cur.requires = [rn(x) for x in other.requires]
            cur.ensures = [rn(x) for x in other.ensures]
            cur.assigns = [(t, rn(x)) for t, x in other.assigns]
            cur.req_asp, cur.ens_asp, cur.asg_asp = list(other.req_asp), list(other.ens_asp), list(other.asg_asp)
            for kk, vv in other.extra.items():
                cur.extra[kk] = [rn(x) for x in vv] if isinstance(vv, list) else vv
            cur.extra['same_as'] = other.name
        elif key in ('ghost_pre', 'ghost_post'):
            cur.extra.setdefault(key, []).append(val)
        elif key == 'invariant':
            cur.extra.setdefault('invariants', []).append(val)
        else:
            cur.extra[key] = val
    return contracts, consts


def load_contracts():
    contracts, consts = {}, {}
    for f in sorted(os.listdir(CONTRACTS)):
        if f.endswith('.spec'):
            parse_spec(os.path.join(CONTRACTS, f), contracts, consts)
    return contracts, consts


def subst_consts(x, consts):
    for k, v in consts.items():
        x = re.sub(r'\b%s\b' % re.escape(k), '(' + v + ')', x)
    return x


def find_old(expr):
    """yield (start, end, kind, inner) for OLD_D(...)/OLD_U(...)/OLD_I(...) occurrences"""
    out = []
    for m in re.finditer(r'\bOLD_([DUI])\(', expr):
        i = m.end()
        depth = 1
        j = i
        while depth:
            if expr[j] == '(':
                depth += 1
            elif expr[j] == ')':
                depth -= 1
            j += 1
        out.append((m.start(), j, m.group(1), expr[i:j - 1]))
    return out


OLDT = {'D': 'double', 'U': 'unsigned long', 'I': 'int'}
NONDET = {'double': 'nondet_double()', 'ulong': 'nondet_ulong()', 'int': 'nondet_int()', 'bool': 'nondet_bool()'}

GHOST_DECL = '''
int bx_exc;
double g_tlast; double g_evis; double g_enom; unsigned long g_draws; unsigned long g_np; double g_pairE;
'''

# functions whose real bodies are always used (tiny accessors; no contract needed)
INLINE_OK_PREFIX = ('particle__', 'event__', 'decay0_emass', 'electron_mass_MeV', 'particle_mass_MeV', 'vector3__',
                    'matrix3__')


ALL_ASPECTS = ('time', 'evis', 'enom', 'draws', 'count')


def stub_text(db, c, consts, mode='light', aspects=ALL_ASPECTS, excl_sites=None):
    """assume/guarantee stub for contract c: assert requires; havoc assigns; assume ensures.
    Only clauses without an aspect tag or with a tag in `aspects` are used."""
    f = db['funcs'][c.name]
    T = db['types']
    pr = bx2c.Printer(T, bx2c.Opts())
    L = [pr.signature(f), '{']
    sel = lambda a: a is None or a in aspects
    c_requires = c.requires
    c = _Sel(c, sel)
    ex = ' || '.join('bx_site == %d' % v for v in sorted((excl_sites or {}).values()))
    for k, r in c.requires:
        if ex:
            # call sites listed in known_findings.txt are checked separately, so that every other call site still binds
            L.append('  __CPROVER_assert((%s) || %s, "pre %s #%d: %s");' % (subst_consts(r, consts), ex, c.name, k + 1, r.replace('"', "'")))
            L.append('  __CPROVER_assert(!(%s) || (%s), "pre %s #%d: %s [at call site %s]");' % (ex, subst_consts(r, consts), c.name, k + 1, r.replace('"', "'"), ','.join(sorted(excl_sites))))
        else:
            L.append('  __CPROVER_assert(%s, "pre %s #%d: %s");' % (subst_consts(r, consts), c.name, k + 1, r.replace('"', "'")))
    olds = {}
    ens = []
    if mode == 'vec' and 'count' in aspects:
        olds[('U', 'g_np')] = 'bx_old_0'
    for e in c.ensures:
        e2 = subst_consts(e, consts)
        # replace OLD_x(..) by snapshot variables (right to left so that offsets stay valid)
        for (a, b, kind, inner) in sorted(find_old(e2), reverse=True):
            key = (kind, inner)
            if key not in olds:
                olds[key] = 'bx_old_%d' % len(olds)
            e2 = e2[:a] + olds[key] + e2[b:]
        ens.append(e2)
    for (kind, inner), v in olds.items():
        L.append('  const %s %s = (%s);' % (OLDT[kind], v, inner))
    np_delta = None
    for (t, lv) in c.assigns:
        if t == 'event':
            continue
        L.append('  %s = %s;' % (lv, NONDET[t]))
    targets = [lv for (t, lv) in c.assigns if t != 'event']
    fun = []      # (guard, target, rhs): functional updates, emitted in dependency order
    rest = []
    for e in ens:
        # a clause of the form  [guard ||] X == f(old state, arguments)  for an assigned X is a functional update: realise it
        # as an assignment (same meaning as havoc+assume, but the solver sees a definition instead of an equation)
        m = re.match(r'^(?:(.+?) \|\| )?([A-Za-z_][\w]*) == (.+)$', e)
        if m and m.group(2) in targets and not re.search(r'\b%s\b' % re.escape(m.group(2)), m.group(3)) \
                and '||' not in m.group(3) and '&&' not in m.group(3) and (m.group(1) is None or '&&' not in m.group(1)) \
                and not any(f[1] == m.group(2) for f in fun):
            fun.append((m.group(1), m.group(2), m.group(3)))
        else:
            rest.append(e)
    done = set()
    pending = list(fun)
    while pending:
        progress = False
        for fc in list(pending):
            others = [g[1] for g in pending if g is not fc]
            if not any(re.search(r'\b%s\b' % re.escape(o_), fc[2]) for o_ in others):
                if fc[0]:
                    L.append('  if (!(%s)) %s = %s;' % fc)
                else:
                    L.append('  %s = %s;' % (fc[1], fc[2]))
                pending.remove(fc)
                progress = True
        if not progress:
            raise ValueError('cyclic functional clauses in contract ' + c.name)
    for e in rest:
        L.append('  __CPROVER_assume(%s);' % e)
    if any(t == 'event' for t, lv in c.assigns):
        ev = [lv for t, lv in c.assigns if t == 'event'][0]
        if mode == 'vec':
            kg = olds.get(('U', 'g_np'))
            if kg is None:
                raise ValueError('contract %s assigns the event but does not relate g_np to OLD_U(g_np)' % c.name)
            # the callee appends g_np - old particles: any of these push_backs may reallocate the buffer
            L.append('  bx_vec_particle_grow(&%s->_particles_, g_np - %s);' % (ev, kg))
    if f.ret != 'void':
        L.append('  return bx_ret;')
    L.append('}')
    return '\n'.join(L)


class _Sel:
    """view of a contract restricted to selected aspects; requires keep their original numbering"""

    def __init__(self, c, sel):
        self.name = c.name
        self.requires = [(k, r) for k, (r, a) in enumerate(zip(c.requires, c.req_asp)) if sel(a)]
        self.ensures = [e for e, a in zip(c.ensures, c.ens_asp) if sel(a)]
        self.assigns = [x for x, a in zip(c.assigns, c.asg_asp) if sel(a)]


def dfcc_contract_text(c, consts, event_assigns='__CPROVER_object_whole(event_->_particles_.data), event_->_particles_.size, event_->_particles_.cap, event_->_particles_.data'):
    out = []
    for r in c.requires:
        out.append('__CPROVER_requires(%s)' % subst_consts(r, consts))
    tg = []
    for (t, lv) in c.assigns:
        if t == 'event':
            tg.append(event_assigns)
        else:
            tg.append(lv)
    out.append('__CPROVER_assigns(%s)' % ', '.join(tg))
    for e in c.ensures:
        e2 = subst_consts(e, consts)
        e2 = re.sub(r'\bOLD_[DUI]\(', '__CPROVER_old(', e2)
        out.append('__CPROVER_ensures(%s)' % e2)
    return '\n'.join(out)


def closure_for(db, contracts, root, stub_levels=None):
    """split the callees of root into (stubbed by contract, inlined real bodies)"""
    stubs = []
    inl = []
    missing = []
    todo = sorted(db['funcs'][root].calls)
    seen = set()
    while todo:
        n = todo.pop()
        if n in seen or n == root:
            continue
        seen.add(n)
        if n in contracts and n in db['funcs']:
            stubs.append(n)
        elif n in db['funcs'] and n.startswith(INLINE_OK_PREFIX):
            inl.append(n)
            todo += sorted(db['funcs'][n].calls)
        else:
            missing.append(n)
    return sorted(stubs), sorted(inl), sorted(missing)


def prelude(db, defines=''):
    th, _ = extract.types_h(db)
    return '\n'.join([defines, '#include "bx_shim.h"', th, '#include "bx_shim_fn.h"', extract.protos_h(db),
                      '#include "bx_models.h"', GHOST_DECL])


def uses_vector(db, name, inl):
    names = [name] + list(inl)
    for n in names:
        f = db['funcs'][n]
        if any(c in ('event__grab_last_particle', 'event__get_particles', 'event__grab_particles') for c in f.calls):
            return True
    return False


def level_literals(f, param):
    """integer literals the level parameter is compared with (the routine's own dispatch)"""
    vals = set()

    def fe(e):
        if e.k == 'bin' and e.op == '==':
            a, b = e.a, e.b
            for x, y in ((a, b), (b, a)):
                if x.k == 'var' and x.name == param and y.k == 'ilit':
                    try:
                        vals.add(int(y.name.split()[0]))
                    except ValueError:
                        pass

    def fs(s):
        for a in ('cond', 'e', 'init'):
            x = getattr(s, a, None)
            if isinstance(x, bx2c.E):
                bx2c.walk_expr(x, fe)
        for a in ('items',):
            for y in getattr(s, a, []) or []:
                fs(y)
        for a in ('then', 'els', 'stmt', 'body'):
            y = getattr(s, a, None)
            if isinstance(y, bx2c.S):
                fs(y)
    fs(f.body)
    return sorted(vals)

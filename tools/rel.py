#!/usr/bin/env python3
"""rel.py -- relational obligations (C01/C02): the C++ routine simulates the reference routine, label by label.

Both routines are rendered in UF mode (double + - * / uninterpreted: equal under every interpretation => equal
under IEEE), cut at their common labels, and one CBMC query per routine pair checks for EVERY cut point c:

   related states at c, same deviates  ==>  same successor cut point, related states, same number of deviates
                                           consumed, same sequence of emission calls with equal arguments.

Calls are replaced on both sides by the same abstract effect (record callee id + arguments; results and
out-parameters are an uninterpreted function of (callee, arguments); deviates after a call come from a fresh
shared epoch).  Segments are loop free (every cycle passes a cut point), so a full-domain nondeterministic
harness over one segment is a complete proof of the step; the simulation argument (DESIGN 2.5) gives whole runs.
"""
import os, sys, re, copy
sys.path.insert(0, os.path.dirname(os.path.abspath(__file__)))
import bx2c, extract, segments, f77c, oblig
from bx2c import S, E, Unsupported

NE, ND, NC, NA = 9, 10, 8, 12
REL_TOL = 5e-6


def norm(name):
    return name.lower().rstrip('_')


def alias_base(name):
    m = re.match(r'^(.*)__\d+$', name)
    return m.group(1) if m else None


def ref_name_for(cxxname, prog):
    """C++ function name -> reference unit name"""
    cands = [cxxname, cxxname.replace('decay0_', ''), cxxname.lower(), cxxname.replace('decay0_', '').lower()]
    for c in cands:
        for u in prog.units:
            if u.lower() == c.lower():
                return u
    return None


# ----------------------------------------------------------------------------------------------
# literal clustering ("floating-point noise": relative 5e-6)
# ----------------------------------------------------------------------------------------------

def collect_literals(f, acc):
    def fe(e):
        if e.k == 'flit':
            acc.add(e.name)

    def fs(s):
        for a in ('cond', 'e', 'inc', 'value', 'init'):
            x = getattr(s, a, None)
            if isinstance(x, E):
                bx2c.walk_expr(x, fe)
            elif isinstance(x, S):
                fs(x)
        for y in getattr(s, 'items', []) or []:
            fs(y)
        for a in ('then', 'els', 'stmt', 'body'):
            y = getattr(s, a, None)
            if isinstance(y, S):
                fs(y)
        if s.kind == 'decl' and s.init is not None and isinstance(s.init, E):
            bx2c.walk_expr(s.init, fe)
    fs(f.body)


def cluster_literals(texts):
    vals = sorted(((float(t), t) for t in texts), key=lambda x: (x[0], x[1]))
    rep = {}
    cur = None
    for v, t in vals:
        if cur is not None and (v == cur[0] or (cur[0] != 0 and v != 0 and abs(v - cur[0]) <= REL_TOL * max(abs(v), abs(cur[0])))):
            rep[t] = cur[1]
        else:
            cur = (v, repr(v))
            rep[t] = cur[1]
    return rep


# ----------------------------------------------------------------------------------------------
# call correspondences
# ----------------------------------------------------------------------------------------------

def value_params(f):
    """(index, name, ctype-kind) of the parameters that carry values: doubles/ints by value ('v') or by reference ('o')"""
    out = []
    for k, (pre, nm, t, isref) in enumerate(f.params):
        b = bx2c.strip_cv(t.replace('&', '').replace('*', '').strip()).replace('bxdecay0::', '')
        if b in ('i_random', 'event'):
            continue
        if b in ('double', 'int', 'bool', 'float', 'particle_code') or b.endswith('particle_code'):
            out.append((k, nm, 'o' if (isref or t.strip().endswith('*')) else 'v', 'double' if b in ('double', 'float') else 'int'))
        else:
            out.append((k, nm, '?', b))
    return out


class Pairing:
    def __init__(self, db, prog):
        self.db = db
        self.prog = prog
        self.ids = {}

    def callee_id(self, key):
        if key not in self.ids:
            self.ids[key] = len(self.ids) + 1
        return self.ids[key]

    def stub_cxx(self, name):
        f = self.db['funcs'][name]
        T = self.db['types']
        key = norm(name.replace('decay0_', '').split('__')[0])
        key = {'randomize_particle': 'particle'}.get(key, key)
        cid = self.callee_id(key)
        vp = value_params(f)
        if any(k == '?' for _, _, k, _ in vp):
            raise Unsupported('callee %s has a parameter the relational stub cannot carry' % name)
        sig = bx2c.Printer(T, bx2c.Opts()).signature(f)
        if key in PURE_KEYS and f.ret != 'void' and all(k_ == 'v' for _, _, k_, _ in vp):
            a_ = ['(double)%s' % nm for (_, nm, kind, ct) in vp]
            a_ += ['0.0'] * (NA - len(a_))
            return sig + '\n{\n  return (%s)__CPROVER_uninterpreted_out(%d, 99, %s);\n}' % (f.ret, cid, ', '.join(a_[:NA])), (cid, [(kind, ct) for (_, nm, kind, ct) in vp])
        L = [sig, '{', '  int k = tr_x_n; __CPROVER_assert(k < %d, "trace capacity"); tr_x_id[k] = %d;' % (NC, cid)]
        args = []
        j = 0
        for (_, nm, kind, ct) in vp:
            if kind == 'v':
                L.append('  tr_x_arg[k][%d] = (double)%s;' % (j, nm))
                args.append('(double)%s' % nm)
                j += 1
        while len(args) < NA:
            args.append('0.0')
        o = 0
        vnames = [nm for (_, nm, kind, ct) in vp if kind == 'v']
        for (_, nm, kind, ct) in vp:
            if kind == 'o':
                uf = '(%s)__CPROVER_uninterpreted_out(%d, %d, %s)' % (ct, cid, o, ', '.join(args[:NA]))
                if key in REFINE_TDLEV and len(vnames) >= 2 and re.match(r'^t[cC]', vnames[-2]) and re.match(r'^th', vnames[-1]):
                    # leaf fact (L0 contract, both sides' leaf bodies): an instantaneous level decays at its creation time
                    uf = '(%s > 0.0 ? %s : %s)' % (vnames[-1], uf, vnames[-2])
                L.append('  *%s = %s;' % (nm, uf))
                o += 1
        L.append('  tr_x_n = k + 1; epoch_x = epoch_x + 1; idx_x = 0;')
        if f.ret != 'void':
            L.append('  return (%s)__CPROVER_uninterpreted_out(%d, 99, %s);' % (f.ret, cid, ', '.join(args[:NA])))
        L.append('}')
        return '\n'.join(L), (cid, [(kind, ct) for (_, nm, kind, ct) in vp])

    def stub_ref(self, uname):
        u = self.prog.units.get(uname)
        key = norm(uname)
        cid = self.callee_id(key)
        if u is None:
            raise Unsupported('reference callee %s is not in the reference file' % uname)
        outs = self.prog.assigned_dummies.get(uname, set())
        ps = []
        shape = []
        for a in u.args:
            t = u.types.get(a) or ('i' if a[0] in 'ijklmn' else 'd')
            ct = {'d': 'double', 'i': 'int'}.get(t)
            if ct is None or a in u.arrays or a in u.externals:
                raise Unsupported('reference callee %s has parameter %s the relational stub cannot carry' % (uname, a))
            if a in outs:
                ps.append('%s *%s' % (ct, a))
                shape.append(('o', ct))
            else:
                ps.append('%s %s' % (ct, a))
                shape.append(('v', ct))
        rt = 'void'
        if u.kind == 'function':
            rt = 'int' if (u.rettype == 'integer' or (u.rettype is None and uname[0] in 'ijklmn')) else 'double'
        if key in PURE_KEYS and rt != 'void' and all(k_ == 'v' for k_, _ in shape):
            a_ = ['(double)%s' % a for a in u.args]
            a_ += ['0.0'] * (NA - len(a_))
            return '%s ref_%s(%s)\n{\n  return (%s)__CPROVER_uninterpreted_out(%d, 99, %s);\n}' % (rt, uname, ', '.join(ps) if ps else 'void', rt, cid, ', '.join(a_[:NA])), (cid, shape)
        L = ['%s ref_%s(%s)' % (rt, uname, ', '.join(ps) if ps else 'void'), '{',
             '  int k = tr_r_n; __CPROVER_assert(k < %d, "trace capacity"); tr_r_id[k] = %d;' % (NC, cid)]
        args = []
        j = 0
        for a, (kind, ct) in zip(u.args, shape):
            if kind == 'v':
                L.append('  tr_r_arg[k][%d] = (double)%s;' % (j, a))
                args.append('(double)%s' % a)
                j += 1
        while len(args) < NA:
            args.append('0.0')
        o = 0
        vnames = [a for a, (kind, ct) in zip(u.args, shape) if kind == 'v']
        for a, (kind, ct) in zip(u.args, shape):
            if kind == 'o':
                uf = '(%s)__CPROVER_uninterpreted_out(%d, %d, %s)' % (ct, cid, o, ', '.join(args[:NA]))
                if key in REFINE_TDLEV and len(vnames) >= 2 and re.match(r'^tc', vnames[-2]) and re.match(r'^th', vnames[-1]):
                    uf = '(%s > 0.0 ? %s : %s)' % (vnames[-1], uf, vnames[-2])
                L.append('  *%s = %s;' % (a, uf))
                o += 1
        L.append('  tr_r_n = k + 1; epoch_r = epoch_r + 1; idx_r = 0;')
        if rt != 'void':
            L.append('  return (%s)__CPROVER_uninterpreted_out(%d, 99, %s);' % (rt, cid, ', '.join(args[:NA])))
        L.append('}')
        return '\n'.join(L), (cid, shape)


PRELUDE = '''
#define BX_UF 1
#define BX_CUSTOM_DRAW 1
#include "bx_shim.h"
%(types)s
#include "bx_shim_fn.h"
int bx_exc; unsigned long g_draws;
double __CPROVER_uninterpreted_out(int, int, %(dargs)s);
static double U[%(NE)d][%(ND)d];
static int epoch_x, idx_x, epoch_r, idx_r;
static int tr_x_n, tr_r_n; static int tr_x_id[%(NC)d], tr_r_id[%(NC)d]; static double tr_x_arg[%(NC)d][%(NA)d], tr_r_arg[%(NC)d][%(NA)d];
static bx_prng rng_x, rng_r;
static bx_prng *prng_ = &rng_r;
static struct event ev_x;
static int bx_cap_ok = 1;
double bx_draw(bx_prng *p)
{
  if (p == &rng_x) {
    if (!(epoch_x < %(NE)d && idx_x < %(ND)d)) { bx_cap_ok = 0; return 0.5; }
    double u = U[epoch_x][idx_x]; idx_x = idx_x + 1; return u;
  } else {
    if (!(epoch_r < %(NE)d && idx_r < %(ND)d)) { bx_cap_ok = 0; return 0.5; }
    double u = U[epoch_r][idx_r]; idx_r = idx_r + 1; return u;
  }
}
static inline _Bool bx_same(double a, double b) { return a == b || (a != a && b != b); }
#include "bx_models.h"
'''


def ctype_of_local(T, t):
    tt = t.strip()
    if '[' in tt or '*' in tt or '&' in tt:
        return None
    try:
        c = T.c(tt)
    except Unsupported:
        return None
    return c if c in ('double', 'int', '_Bool') else None


# pure value functions of the C++ side that have no counterpart unit in the reference (it uses the constants of
# common/const/ directly): rendered with their real bodies
INLINE_PURE = ('decay0_emass', 'electron_mass_MeV', 'particle_mass_MeV')

ADMISSIBLE_SWAP = ('decay0_pair',)
# value functions without deviates or emissions on either side (checked: their own pairs have empty call traces apart from
# other pure functions): a call is the uninterpreted result of its arguments and is not a trace event, so that an extra
# or repeated evaluation (decay0_fe12_mod4 evaluates fermi(Zd,e1) twice) is not a difference
PURE_KEYS = ('fermi',)
# callees whose out-parameter tdlev equals tclev when thlev <= 0 (the leaf and the four one-line wrappers around it)
REFINE_TDLEV = ('particle', 'gamma', 'electron', 'positron', 'alpha')

TRUNCATE = {
    # documented admissible difference (C01): the C++ Y90 routine samples the revised pair-positron spectrum; both sides
    # are compared up to and including the decision to enter that block, the block itself is not compared
    'Y90': ['label_17611'],
}


def truncate_at(body, labels):
    """replace the statement at each of `labels` by a return (the run is compared up to the arrival at the label)"""
    body = copy.deepcopy(body)

    def rec(s):
        if s.kind == 'label' and s.name in labels:
            s.stmt = S('return', e=None)
            return
        for y in getattr(s, 'items', []) or []:
            rec(y)
        for a in ('then', 'els', 'stmt', 'body'):
            y = getattr(s, a, None)
            if isinstance(y, S):
                rec(y)
    rec(body)
    return body


def drop_unreachable_tail(body, labels):
    """after truncation the statements that followed a truncated label inside its block are dead: remove them so that
    their loops/labels do not count as cut points"""
    def rec(s):
        if s.kind == 'block':
            out = []
            skipping = False
            for y in s.items:
                if skipping:
                    if y.kind == 'label':
                        skipping = False
                    else:
                        continue
                rec(y)
                out.append(y)
                if y.kind == 'label' and y.name in labels:
                    skipping = True
            s.items = out
            return
        for a in ('then', 'els', 'stmt', 'body'):
            y = getattr(s, a, None)
            if isinstance(y, S):
                rec(y)
    rec(body)
    return body


def build_pair_queries(db, prog, name, propid='C01', chunk=40):
    """the routine pair's cut points, split into queries of at most `chunk` cut points"""
    q = build_pair_query(db, prog, name, propid=propid)
    n = len(q['meta']['cuts']) + 1
    if n <= chunk:
        return [q]
    out = []
    for lo in range(0, n, chunk):
        out.append(build_pair_query(db, prog, name, propid=propid, only=range(lo, min(n, lo + chunk))))
    return out


EVENT_REF = ('ref_npgeant', 'ref_pmoment', 'ref_ptime', 'ref_set_npgeant', 'ref_set_pmoment', 'ref_set_ptime', 'ref_npfull', 'ref_tevst')


def _called(e):
    """names of the functions called inside expression e, and the global variables it reads"""
    out = set()

    def fe(x):
        if not isinstance(x, E):
            return
        if x.k == 'call':
            a = x.a
            out.add(a if isinstance(a, str) else getattr(a, 'name', None))
        if x.k == 'var' and str(x.name).startswith('ref_ev_'):
            out.add('ref_npfull')
        for y in (x.a, x.b, x.c):
            if isinstance(y, E):
                fe(y)
        for y in (x.args or []):
            fe(y)
    fe(e)
    return out


def _is_event_access(names):
    return any(n and (n in EVENT_REF or n.startswith('event__') or n.startswith('particle__') or n.startswith('bx_vec_particle')) for n in names)


def drop_event_access(body):
    """statements that read or rewrite particles ALREADY in the event record (the angular-correlation blocks of Co60, Bi207,
    Ru100low, Se76low, Sm150low: capture an index after an emission, later re-sample the two directions) are removed on both
    sides; everything else of the routine - branching, emission calls, energies, times, deviates - stays and is compared.
    Returns (new body, number of statements removed)."""
    n = [0]
    info = {'captured': [], 'rewrite_after_label': set(), 'last_label': None}

    def fs(s):
        k = s.kind
        if k in ('expr', 'return') and getattr(s, 'e', None) is not None and _is_event_access(_called(s.e)):
            if k == 'return':
                raise Unsupported('event access inside a return statement')
            n[0] += 1
            names_ = _called(s.e)
            if any(x_ and ('set_' in x_) for x_ in names_):
                # a momentum of an already emitted particle is rewritten: only inside a re-sampling block
                if info['last_label'] is None:
                    raise Unsupported('event rewrite before any label')
                info['rewrite_after_label'].add(info['last_label'])
            elif s.e.k == 'assign' and s.e.a.k == 'var':
                info['captured'].append(s.e.a.name)
            return S('empty', why='event access removed (angular-correlation block)')
        if k == 'decl':
            names = set()
            if s.init is not None:
                names |= _called(s.init)
            if getattr(s, 'ctor', None) is not None:
                names |= _called(s.ctor)
            if _is_event_access(names):
                n[0] += 1
                d = copy.copy(s)
                d.init = None
                d.ctor = None
                return d
            return s
        if k == 'if':
            if _is_event_access(_called(s.cond)):
                raise Unsupported('a branch condition reads the event record')
            t = copy.copy(s)
            t.then = fs(s.then)
            t.els = fs(s.els) if s.els is not None else None
            return t
        if k == 'block':
            t = copy.copy(s)
            t.items = [fs(y) for y in s.items]
            return t
        if k == 'label':
            info['last_label'] = s.name
            t = copy.copy(s)
            t.stmt = fs(s.stmt)
            return t
        if k in ('for', 'while', 'do'):
            for a in ('cond',):
                c_ = getattr(s, a, None)
                if c_ is not None and _is_event_access(_called(c_)):
                    raise Unsupported('a loop condition reads the event record')
            t = copy.copy(s)
            t.body = fs(s.body)
            return t
        return s
    return fs(body), n[0], info


def _body_calls(body):
    out = set()

    def fs(s):
        for a in ('e', 'cond', 'init', 'ctor', 'inc'):
            x = getattr(s, a, None)
            if isinstance(x, E):
                out.update(_called(x))
            elif isinstance(x, S):
                fs(x)
        for y in getattr(s, 'items', []) or []:
            fs(y)
        for a in ('then', 'els', 'stmt', 'body'):
            y = getattr(s, a, None)
            if isinstance(y, S):
                fs(y)
    fs(body)
    return {c for c in out if c}


def build_pair_query(db, prog, name, pairing=None, extra_cuts=None, propid='C01', only=None, hooks=None):
    """one CBMC query: every cut point (or the cut points with index in `only`) of the routine pair"""
    hooks = hooks or {}
    fx = db['funcs'][name]
    T = db['types']
    rname = hooks.get('ref') or ref_name_for(name, prog)
    if rname is None:
        raise Unsupported('no reference unit for ' + name)
    fr = prog.translate(rname)
    dropped = None
    if not hooks.get('event_record') and (any(c in EVENT_REF for c in fr.calls) or _is_event_access(fx.calls)):
        bx_, nx_, ix_ = drop_event_access(fx.body)
        br_, nr_, ir_ = drop_event_access(fr.body)
        if nx_ and nr_:
            fx = copy.copy(fx)
            fx.body = bx_
            gone = {c for c in fx.calls if _is_event_access([c])} - _body_calls(bx_)
            fx.calls = set(fx.calls) - gone
            fr = copy.copy(fr)
            fr.body = br_
            fr.calls = {c for c in fr.calls if c not in EVENT_REF}
            dropped = {'cxx_statements': nx_, 'reference_statements': nr_}
            # the captured indices are never assigned any more: they keep their initial values (-1 in the port, 0 in the
            # reference: Fortran locals start at 0, the model stated for f77c), so the re-sampling block is skipped on both
            # sides; as invariants of every cut point (assumed at the start of a segment, asserted on arrival)
            hooks = dict(hooks)
            inv = []
            capx, capr = sorted(set(ix_['captured'])), sorted(set(ir_['captured']))
            for (t_, nm_, did_) in fx.locals:
                if nm_ in capx and bx2c.strip_cv(t_) == 'int':
                    inv.append('x_%s == -1' % nm_)     # (a double assigned from a read, p1064 = g1064.get_p(), is simply dead)
            for (t_, nm_, did_) in fr.locals:
                if nm_ in capr and t_ == 'int':
                    inv.append('r_%s == 0' % nm_)
            if ix_['rewrite_after_label'] != ir_['rewrite_after_label']:
                raise Unsupported('re-sampling loops are labelled differently on the two sides: %s / %s' % (sorted(ix_['rewrite_after_label']), sorted(ir_['rewrite_after_label'])))
            hooks['dead_cuts'] = sorted(ix_['rewrite_after_label'])
            dropped['captured_indices'] = [capx, capr]
            dropped['resampling_loops_asserted_unreachable'] = hooks['dead_cuts']
            hooks['skip_vars'] = set(hooks.get('skip_vars', ())) | {'twopi'} | {norm(nm_) for nm_ in capx + capr}
            est = ' '.join('%s = %s;' % tuple(x_.split(' == ')) for x_ in inv)
            hooks['all_cut_invariants'] = [('captured particle indices keep their initial values (event access removed)', ' && '.join(inv), est)] if inv else []
    pairing = pairing or Pairing(db, prog)
    # ---- callees -------------------------------------------------------------------------------
    stubs = []
    shapes_x = {}
    inline_x = []
    todo = sorted(fx.calls)
    callees_x = []
    while todo:
        c = todo.pop(0)
        if (c in INLINE_PURE or c in hooks.get('inline_x', ())) and c in db['funcs']:
            if c not in inline_x:
                inline_x.append(c)
                todo += sorted(db['funcs'][c].calls)
        elif c not in callees_x:
            callees_x.append(c)
    for c in sorted(callees_x):
        if c in hooks.get('custom_stubs_x', {}):
            stubs.append(hooks['custom_stubs_x'][c])
            continue
        if c not in db['funcs']:
            raise Unsupported('C++ callee %s not rendered' % c)
        txt, shp = pairing.stub_cxx(c)
        stubs.append(txt)
        shapes_x[shp[0]] = (c, shp[1])
    for c in sorted(fr.calls):
        if c in hooks.get('custom_stubs_r', {}):
            stubs.append(hooks['custom_stubs_r'][c])
            continue
        if c.startswith('ref_') and hooks.get('event_record'):
            continue
        if c.startswith('ref_'):
            raise Unsupported('reference routine accesses the event record (%s): angular-correlation block, not covered yet' % c)
        txt, shp = pairing.stub_ref(c)
        stubs.append(txt)
        if shp[0] in shapes_x:
            cx, sx = shapes_x[shp[0]]
            if [k for k in sx] != [k for k in shp[1]]:
                raise Unsupported('parameter shapes of %s and reference %s differ: %s vs %s' % (cx, c, sx, shp[1]))
    # ---- cut points --------------------------------------------------------------------------------
    bx0, br0 = fx.body, fr.body
    if hooks.get('transform_x'):
        bx0 = hooks['transform_x'](copy.deepcopy(bx0))
    if hooks.get('transform_r'):
        br0 = hooks['transform_r'](copy.deepcopy(br0))
    if name in TRUNCATE:
        bx0 = drop_unreachable_tail(truncate_at(bx0, TRUNCATE[name]), TRUNCATE[name])
        br0 = drop_unreachable_tail(truncate_at(br0, TRUNCATE[name]), TRUNCATE[name])
    bx = segments.lower_loops(copy.deepcopy(bx0)) if segments.has_structured_loop(bx0) else bx0
    br = segments.lower_loops(copy.deepcopy(br0)) if segments.has_structured_loop(br0) else br0
    if hooks.get('cutmap'):
        # a structured loop on one side against a label+goto loop on the other: the loop head IS that label
        # (a wrong map cannot make a false proof, only a failed one)
        cm_ = hooks['cutmap']
        bx = copy.deepcopy(bx)

        def ren(s):
            if s.kind == 'label' and s.name in cm_:
                s.name = cm_[s.name]
            if s.kind == 'goto' and s.label in cm_:
                s.label = cm_[s.label]
            for y in getattr(s, 'items', []) or []:
                ren(y)
            for a in ('then', 'els', 'stmt', 'body', 'init'):
                y = getattr(s, a, None)
                if isinstance(y, S):
                    ren(y)
        ren(bx)
    lx = [n for k, n in segments.order_positions(bx) if k == 'label']
    lr = [n for k, n in segments.order_positions(br) if k == 'label']
    common = [l for l in lx if l in set(lr) and not re.match(r'^bx_loop\d+_(cont|end)$', l)]   # only loop HEADS cut a lowered loop
    need = set(segments.backward_targets(bx)) | set(segments.backward_targets(br))
    missing = [l for l in need if l not in common]
    if missing:
        raise Unsupported('cycle through label(s) %s that exist on one side only: needs a cut-point map' % missing)
    cuts = common
    # ---- literals ------------------------------------------------------------------------------------
    lits = set()
    collect_literals(fx, lits)
    collect_literals(fr, lits)
    for c in list(INLINE_PURE) + list(inline_x):
        if c in db['funcs']:
            collect_literals(db['funcs'][c], lits)
    for nm in getattr(fr, 'commons', {}):
        for v in prog.common_init.get(nm, []):
            v = v.strip().lower().replace('d', 'e').lstrip('+-')
            if not re.match(r'^\d+$', v):
                if v.endswith('.'):
                    v += '0'
                if v.startswith('.'):
                    v = '0' + v
                lits.add(re.sub(r'\.e', '.0e', v))
    rep = cluster_literals(lits)
    litmap = lambda t: rep.get(t, t)
    ox = bx2c.Opts(uf=True, prefix='x_', hoist=True, litmap=litmap)
    orf = bx2c.Opts(uf=True, prefix='r_', hoist=True, litmap=litmap)
    fx2 = copy.copy(fx)
    fx2.body = bx
    fr2 = copy.copy(fr)
    fr2.body = br
    dx, sx, idsx = segments.segment_function(fx2, T, ox, cuts, segname='cxx_seg')
    dr, sr, idsr = segments.segment_function(fr2, T, orf, cuts, segname='ref_seg')
    assert idsx == idsr
    # ---- related variables -------------------------------------------------------------------------------
    vx = {}
    rnm = hooks.get('rename_x', {})
    _norm = globals()['norm']

    def normx(n_):   # C++ -> reference variable name map of this pair
        k_ = _norm(n_)
        return rnm.get(k_, k_)
    for (pre, nm, t, isref) in fx.params:
        vx[normx(nm)] = ('param', nm, t, isref)
    aliases = {}
    for (t, nm, did) in fx.locals:
        ab = alias_base(nm)
        if ab is not None:
            # a second C++ variable of the same source name (block-scoped loop counters): related to the same reference
            # variable; compared only when it changed in the segment (the other one is dead there)
            aliases.setdefault(normx(ab), []).append((nm, t))
            continue
        vx.setdefault(normx(nm), ('local', nm, t, False))
    vr = {}
    for (pre, nm, t, isref) in fr.params:
        vr[_norm(nm)] = ('param', nm, t, isref)
    for (t, nm, did) in fr.locals:
        vr.setdefault(_norm(nm), ('local', nm, t, False))
    H = []
    setup_entry = []
    setup_cut = []
    checks = []
    relinfo = {}
    unrelated = []
    G = []
    # function-local statics of the C++ side with constant initialisers (static const double pi = M_PI ...): at a cut point
    # they hold their initial value (write-once: C07 frame scan), they are not arbitrary
    static_init = {}
    ox_ = bx2c.Opts(uf=True, prefix='x_', hoist=True, litmap=None)
    for (snm, st_, sinit, sconst) in fx.statics:
        if sinit is not None and ctype_of_local(T, st_) == 'double':
            static_init[snm] = sinit
    for key in sorted(set(vx) | set(vr)):
        if key in hooks.get('skip_vars', ()):
            continue
        a = vx.get(key)
        b = vr.get(key)
        if a and a[1] in static_init:
            continue
        if a and b:
            ta = bx2c.strip_cv(a[2].replace('&', '')).replace('bxdecay0::', '')
            tb = bx2c.strip_cv(b[2].replace('&', ''))
            ca = {'double': 'double', 'int': 'int', 'bool': 'int', 'const int': 'int'}.get(ta)
            if ca is None and (ta in T.enums or ta.replace('::', '__') in T.enums):
                ca = 'int'
            cb = {'double': 'double', 'int': 'int', 'bool': 'int'}.get(tb)
            if a[3] or b[3]:
                # by-reference parameters: each side points at its own harness variable; related like locals
                if not (a[3] and b[3]) or ca is None or ca != cb:
                    raise Unsupported('parameter %s is by reference on one side only' % key)
                G.append('static %s px_%s, pr_%s;' % (ca, key, key))
                both = '  { %s v = nondet_%s(); px_%s = v; pr_%s = v; x_%s = &px_%s; r_%s = &pr_%s; }' % (ca, ca, key, key, a[1], key, b[1], key)
                setup_entry.append(both)
                setup_cut.append(both)
                cmp_ = 'bx_same(px_%s, pr_%s)' % (key, key) if ca == 'double' else 'px_%s == pr_%s' % (key, key)
                checks.append((key, cmp_))
                continue
            if ca is None or cb is None:
                unrelated.append((key, a[2], b[2]))
                continue
            cast = '' if ca == cb else '(%s)' % cb
            al = aliases.get(key, [])
            off_ = hooks.get('offset', {}).get(key)
            if off_ is not None:
                # a loop counter that runs 0..m-1 in the port and 1..m in the reference: related by  r == x + off
                if ca != 'int' or cb != 'int' or al:
                    raise Unsupported('offset relation on a non-int variable ' + key)
                both = '  { int v = nondet_int(); __CPROVER_assume(v > -1000000 && v < 1000000); x_%s = v; r_%s = v + (%d); }' % (a[1], b[1], off_)
                if a[0] == 'param' or b[0] == 'param':
                    setup_entry.append(both)
                setup_cut.append(both)
                checks.append((key, 'x_%s + (%d) == r_%s' % (a[1], off_, b[1])))
                continue
            both = '  { %s v = nondet_%s(); x_%s = v; r_%s = %sv; %s}' % (ca, ca, a[1], b[1], cast, ''.join('x_%s = v; ' % n_ for n_, t_ in al))
            if al:
                G.append('static %s old_%s%s;' % (ca, a[1], ''.join(', old_%s' % n_ for n_, t_ in al)))
                both = both[:-1] + ' old_%s = v; %s}' % (a[1], ''.join('old_%s = v; ' % n_ for n_, t_ in al))
                for n_ in [a[1]] + [n_ for n_, t_ in al]:
                    checks.append((key + '/' + n_, '(bx_same((double)x_%s, (double)old_%s) || bx_same((double)x_%s, (double)r_%s))' % (n_, n_, n_, b[1])))
                if a[0] == 'param' or b[0] == 'param':
                    setup_entry.append(both)
                setup_cut.append(both)
                continue
            if a[0] == 'param' or b[0] == 'param':
                setup_entry.append(both)
            setup_cut.append(both)
            if a[0] == 'param' and b[0] == 'param' and not cuts:
                # by-value parameters of a loop-free pair are not observable after the call (the reference's fermi clamps
                # its own copy of E)
                continue
            relinfo[key] = (ca, cb, a[1], b[1])
            if ca == 'double' and cb == 'double':
                checks.append((key, 'bx_same(x_%s, r_%s)' % (a[1], b[1])))
            else:
                checks.append((key, '(double)x_%s == (double)r_%s' % (a[1], b[1])))
        else:
            side, v = ('x', a) if a else ('r', b)
            tt = bx2c.strip_cv(v[2].replace('&', '')).replace('bxdecay0::', '')
            if tt in ('i_random', 'event'):
                continue
            c = {'double': 'double', 'int': 'int', 'bool': 'int', 'const bool': 'int', 'const double': 'double'}.get(tt)
            if c is None:
                unrelated.append((key, v[2], None))
                continue
            setup_cut.append('  %s_%s = nondet_%s();' % (side, v[1], c))
    # constants of the reference's common blocks (block data values)
    for nm, (t_, dims) in sorted(getattr(fr, 'commons', {}).items()):
        vals = prog.common_init.get(nm)
        if vals is None:
            raise Unsupported('common variable %s is read but has no block-data value (state set by another unit)' % nm)
        def lit(v):
            v = v.strip().lower().replace('d', 'e')
            neg = v.startswith('-')
            v = v.lstrip('+-')
            if re.match(r'^\d+$', v):
                return ('-' if neg else '') + v
            if v.endswith('.'):
                v += '0'
            if v.startswith('.'):
                v = '0' + v
            v = re.sub(r'\.e', '.0e', v)
            return ('-' if neg else '') + litmap(v)
        if dims:
            st = ' '.join('r_%s[%d] = %s;' % (nm, i, lit(v)) for i, v in enumerate(vals))
        else:
            st = 'r_%s = %s;' % (nm, lit(vals[0]))
        setup_entry.append('  ' + st)
        setup_cut.append('  ' + st)
    # counters of DO/for loops with literal bounds: lo <= i <= hi+1 at every cut point (assumed on entry to a segment,
    # asserted again on arrival), so that indexing inside a segment that starts at the loop head stays in range
    def loop_ranges(body, pfx):
        out = []

        def fs(s):
            if s.kind == 'for' and s.init is not None and s.cond is not None:
                try:
                    if s.init.kind == 'expr' and s.init.e.k == 'assign':
                        v, lo = s.init.e.a, s.init.e.b
                    elif s.init.kind == 'decl':
                        v, lo = E('var', name=s.init.name, extra='local'), s.init.init
                    else:
                        v = None
                    c = s.cond
                    while c is not None and c.k == 'paren':
                        c = c.a
                    if v is not None and v.k == 'var' and lo.k == 'ilit' and c.k == 'bin' and c.op in ('<=', '<') and c.b.k == 'ilit' and c.a.k == 'var' and c.a.name == v.name:
                        hi = int(c.b.name.split()[0]) + (1 if c.op == '<=' else 0)
                        out.append('%s%s >= %s && %s%s <= %d' % (pfx, v.name, lo.name.split()[0], pfx, v.name, hi))
                except AttributeError:
                    pass
            for y in getattr(s, 'items', []) or []:
                fs(y)
            for a in ('then', 'els', 'stmt', 'body'):
                y = getattr(s, a, None)
                if isinstance(y, S):
                    fs(y)
        fs(body)
        return out
    for cnd in loop_ranges(bx0, 'x_') + loop_ranges(br0, 'r_'):
        setup_cut.append('  __CPROVER_assume(%s);' % cnd)
        checks.append(('loop counter range', '(nx == %d) || (%s)' % (segments.BX_EXIT, cnd)))
    for ln in hooks.get('extra_setup', []):
        setup_entry.append(ln)
        setup_cut.append(ln)
    for (snm, st_, sinit, sconst) in fx.statics:
        if snm in static_init:
            ox_.litmap = litmap
            setup_cut.append('  x_%s = %s;' % (snm, bx2c.P(sinit, ox_)))
            b = vr.get(_norm(snm))
            if b is not None and b[1] not in getattr(fr, 'commons', {}):
                setup_cut.append('  r_%s = x_%s;' % (b[1], snm))
            if b is not None and _norm(snm) not in hooks.get('skip_vars', ()):
                checks.append((_norm(snm), 'bx_same(x_%s, r_%s)' % (snm, b[1])))
    checks += list(hooks.get('extra_checks', []))
    G += list(hooks.get('extra_globals', []))
    # state commons of the reference side that no hook declared
    for g_, (t_, dims_, blk_, pos_) in sorted(getattr(fr, 'state_commons', {}).items()):
        decl_ = 'static %s %s%s;' % ({'d': 'double', 'i': 'int'}[t_], g_, '[%s]' % dims_[0] if dims_ else '')
        if decl_ not in G and not any(g_ in x for x in G):
            G.append(decl_)
    # prng/event parameters of the C++ side
    for (pre, nm, t, isref) in fx.params:
        b = bx2c.strip_cv(t.replace('&', '')).replace('bxdecay0::', '')
        if b == 'i_random':
            setup_entry.append('  x_%s = &rng_x;' % nm)
            setup_cut.append('  x_%s = &rng_x;' % nm)
        if b == 'event':
            setup_entry.append('  x_%s = &ev_x;' % nm)
            setup_cut.append('  x_%s = &ev_x;' % nm)
    if fx.ret != 'void' and fr.ret != 'void':
        checks.append(('result', 'bx_same((double)x_bx_ret, (double)r_bx_ret)'))
    th, _ = extract.types_h(db)
    parts = [PRELUDE % {'types': th, 'dargs': ', '.join(['double'] * NA), 'NE': NE, 'ND': ND, 'NC': NC, 'NA': NA}]
    parts.append('double nondet_double(void); int nondet_int(void);')
    parts.append(extract.protos_h(db))
    parts += G
    parts += stubs
    for c in reversed(inline_x):
        parts.append(bx2c.Printer(T, bx2c.Opts(uf=True, litmap=litmap)).function(db['funcs'][c]))
    parts.append(dx)
    parts.append(dr)
    parts.append(sx)
    parts.append(sr)
    H.append('void harness(void)')
    H.append('{')
    H.append('  for (int e = 0; e < %d; e++) for (int i = 0; i < %d; i++) { double u = nondet_double(); __CPROVER_assume(u > 0.0 && u < 1.0); U[e][i] = u; }' % (NE, ND))
    H.append('  int pc = nondet_int(); __CPROVER_assume(pc >= 0 && pc <= %d);' % len(cuts))
    H.append('  epoch_x = 0; idx_x = 0; epoch_r = 0; idx_r = 0; tr_x_n = 0; tr_r_n = 0; bx_exc = 0;')
    H.append('  int nx, nr, exc_x;')
    names = ['entry'] + cuts
    # *low cascades: the level parameter is one of the levels the routine dispatches on (what genbbsub passes; tied to
    # the level table by the genbbsub obligations).  Under that precondition the "wrong level" exit must be unreachable,
    # which is asserted in every segment; the segment that would START there is then vacuous and is skipped.
    dead = []
    lvpre = None
    import l3 as _l3
    if _l3.routine_kind(fx) == 'low':
        lvname = fx.params[2][1]
        lv = oblig.level_literals(fx, lvname)
        if lv and 'label_20000' in cuts:
            dead = ['label_20000']
            lvpre = '__CPROVER_assume(%s);' % ' || '.join('x_%s == %d' % (lvname, v) for v in lv)
    dead_rs = [d_ for d_ in hooks.get('dead_cuts', []) if d_ in cuts]
    H.append('  switch (pc) {')
    for k, cname in enumerate(names):
        if only is not None and k not in only:
            continue
        if cname in dead_rs:
            continue
        if cname in dead:
            continue
        # everything of one cut point stays inside its case: pc is a constant there, so array indices stay concrete
        H.append('  case %d: {' % k)
        H += ['  ' + s for s in (setup_entry if k == 0 else setup_cut)]
        for inv_ in (hooks.get('cut_invariants', {}).get(cname, []) + (hooks.get('all_cut_invariants', []) if k != 0 else [])):
            desc_, cond_ = inv_[0], inv_[1]
            if len(inv_) > 2:
                # established by assignment (bit-identical copies, also for NaN payloads) instead of by assumption
                H.append('    %s   /* invariant of this cut point: %s */' % (inv_[2], desc_))
            H.append('    __CPROVER_assume(%s);   /* invariant of this cut point: %s */' % (cond_, desc_))
        # variables declared dead at this cut point (each side overwrites them before reading them): havocked independently
        # on the two sides and not compared on arrival here.  Self-validating: were one of them live, the independent
        # values would make a later comparison fail, never pass.
        for key in hooks.get('dead_at', {}).get(cname, []):
            ca_, cb_, xa_, rb_ = relinfo[key]
            H.append('    x_%s = nondet_%s(); r_%s = nondet_%s();   /* dead here */' % (xa_, ca_, rb_, cb_))
        if lvpre:
            H.append('    ' + lvpre)
        H.append('    nx = cxx_seg(%d); exc_x = bx_exc; bx_exc = 0; nr = ref_seg(%d);' % (k, k))
        if hooks.get('assume_no_exc'):
            H.append('    __CPROVER_assume(!exc_x);   /* ASSUMPTION: %s */' % hooks['assume_no_exc'])
        tag = '%s %s seg@%s' % (propid, name, cname)
        for d in dead:
            H.append('    __CPROVER_assert(nx != %d, "%s: the wrong-level exit is unreachable for a tabulated level");' % (idsx[d], tag))
        for d in dead_rs:
            H.append('    __CPROVER_assert(nx != %d && nr != %d, "%s: the re-sampling loop %s is not entered once the event accesses are removed (captured indices keep their initial values)");' % (idsx[d], idsx[d], tag, d))
        H.append('    __CPROVER_assert(bx_cap_ok, "relational harness capacity (deviate epochs) suffices");')
        H.append('    __CPROVER_assert(nx == nr, "%s: same successor cut point");' % tag)
        H.append('    __CPROVER_assert(exc_x == bx_exc, "%s: same error exit");' % tag)
        H.append('    __CPROVER_assert(epoch_x == epoch_r && idx_x == idx_r, "%s: same number of deviates consumed");' % tag)
        H.append('    __CPROVER_assert(tr_x_n == tr_r_n, "%s: same number of emission calls");' % tag)
        for c_ in range(NC):
            first = 0
            swap = ''
            if name in ADMISSIBLE_SWAP:
                # documented admissible difference: e+/e- order inside an internal pair
                first = 1
                swap = '(bx_same(tr_x_arg[%d][0], tr_r_arg[%d][0]) || (tr_x_arg[%d][0] == 2.0 && tr_r_arg[%d][0] == 3.0) || (tr_x_arg[%d][0] == 3.0 && tr_r_arg[%d][0] == 2.0)) && ' % ((c_,) * 6)
            cmpa = swap + ' && '.join('bx_same(tr_x_arg[%d][%d], tr_r_arg[%d][%d])' % (c_, a_, c_, a_) for a_ in range(first, NA))
            H.append('    if (%d < tr_x_n && %d < tr_r_n) { __CPROVER_assert(tr_x_id[%d] == tr_r_id[%d], "%s: same callee at call #%d"); '
                     '__CPROVER_assert(%s, "%s: same arguments at call #%d"); }' % (c_, c_, c_, c_, tag, c_ + 1, cmpa, tag, c_ + 1))
        for key, cmp_ in checks:
            dl_ = [segments.BX_EXIT if cl_ == '@exit' else idsx[cl_] for cl_, ks_ in hooks.get('dead_at', {}).items() if key in ks_ and (cl_ in idsx or cl_ == '@exit')]
            if dl_:
                cmp_ = '%s || %s' % (' || '.join('nx == %d' % d_ for d_ in dl_), cmp_)
            H.append('    __CPROVER_assert(%s, "%s: related variable %s equal afterwards");' % (cmp_, tag, key))
        for inv_ in hooks.get('all_cut_invariants', []):
            H.append('    __CPROVER_assert(nx == %d || (%s), "%s: invariant on arrival at the next cut point: %s");' % (segments.BX_EXIT, inv_[1], tag, inv_[0]))
        for cl_, invs_ in hooks.get('cut_invariants', {}).items():
            if cl_ in idsx:
                for inv_ in invs_:
                    desc_, cond_ = inv_[0], inv_[1]
                    H.append('    __CPROVER_assert(nx != %d || (%s), "%s: invariant of %s on arrival: %s");' % (idsx[cl_], cond_, tag, cl_, desc_))
        H.append('    __CPROVER_assert(0, "canary %s: the end of this segment\'s case is reachable (must be refuted)");' % tag)
        H.append('    break; }')
    H.append('  }')
    H.append('  __CPROVER_assert(0, "canary %s: harness end is reachable (must be refuted)");' % name)
    H.append('}')
    parts.append('\n'.join(H))
    meta = {'function': name, 'reference': rname, 'what': 'rel', 'cuts': cuts, 'labels_cxx_only': [l for l in lx if l not in set(lr)],
            'labels_ref_only': [l for l in lr if l not in set(lx)], 'unrelated': unrelated,
            'related': [k for k, _ in checks], 'chunk': ([only[0], only[-1]] if only is not None else None), 'truncated_at': TRUNCATE.get(name), 'event_access_removed': dropped, 'assumed_no_exc': hooks.get('assume_no_exc'), 'dead_at': hooks.get('dead_at'), 'cut_invariants': {k_: [i_[0] for i_ in v_] for k_, v_ in hooks.get('cut_invariants', {}).items()}, 'skipped_dead_cuts': dead, 'literal_clusters': sum(1 for t, r in rep.items() if repr(float(t)) != r)}
    return {'c': '\n\n'.join(parts) + '\n', 'entry': 'harness', 'meta': meta}


# ----------------------------------------------------------------------------------------------
# the leaf: randomize_particle vs the reference's  particle(np,E1,E2,teta1,teta2,phi1,phi2,tclev,thlev,tdlev)
# ----------------------------------------------------------------------------------------------

def build_leaf_query(db, prog, propid='C01'):
    """C++ leaf (real body, real particle/event accessors, vector shim) against the reference leaf writing its event
    record; both loop free: one monolithic UF query.  Relation after the call: same deviates consumed in the same
    order, same species, same momentum, same tdlev, C++ time == previous time + reference delay (documented
    admissible difference: absolute instead of incremental times)."""
    import genbb
    T = db['types']
    fx = db['funcs']['randomize_particle']
    fr = prog.translate('particle')
    inl = []
    todo = sorted(fx.calls)
    while todo:
        c = todo.pop(0)
        if c in db['funcs'] and c not in inl:
            inl.append(c)
            todo += sorted(db['funcs'][c].calls)
    lits = set()
    collect_literals(fx, lits)
    collect_literals(fr, lits)
    for c in inl:
        collect_literals(db['funcs'][c], lits)
    inits = genbb.common_inits(fr, prog)
    for nm, vals, dims in inits:
        for v in vals:
            v = v.strip().lower().replace('d', 'e').lstrip('+-')
            if not re.match(r'^\d+$', v):
                if v.endswith('.'):
                    v += '0'
                if v.startswith('.'):
                    v = '0' + v
                lits.add(re.sub(r'\.e', '.0e', v))
    rep = cluster_literals(lits)
    litmap = lambda t: rep.get(t, t)
    o = bx2c.Opts(uf=True, litmap=litmap)
    th, _ = extract.types_h(db)
    parts = [PRELUDE % {'types': th, 'dargs': ', '.join(['double'] * NA), 'NE': NE, 'ND': ND, 'NC': NC, 'NA': NA}]
    parts.append('double nondet_double(void); int nondet_int(void); unsigned long nondet_ulong(void);')
    parts.append('#define BX_LEAF_N 6\nstatic int ref_ev_npfull; static int r_npgeant[BX_LEAF_N + 2]; static double r_pmoment[3][BX_LEAF_N + 2]; static double r_ptime[BX_LEAF_N + 2];')
    parts.append('static void ref_set_npgeant(int n, int v) { __CPROVER_assert(n >= 1 && n <= BX_LEAF_N + 1, "reference event index in range"); r_npgeant[n] = v; }')
    parts.append('static void ref_set_pmoment(int k, int n, double v) { __CPROVER_assert(n >= 1 && n <= BX_LEAF_N + 1 && k >= 1 && k <= 3, "reference event index in range"); r_pmoment[k - 1][n] = v; }')
    parts.append('static void ref_set_ptime(int n, double v) { __CPROVER_assert(n >= 1 && n <= BX_LEAF_N + 1, "reference event index in range"); r_ptime[n] = v; }')
    parts.append(extract.protos_h(db))
    for c in reversed(inl):
        parts.append(bx2c.Printer(T, o).function(db['funcs'][c]))
    parts.append(bx2c.Printer(T, o).function(fx))
    # reference leaf with its locals and common-block constants
    pr = bx2c.Printer(T, o)
    L = [pr.signature(fr), '{']
    pn = {p[1] for p in fr.params}
    cinit = {nm: (vals, dims) for nm, vals, dims in inits}

    def lit(v):
        v = v.strip().lower().replace('d', 'e')
        neg = v.startswith('-')
        v = v.lstrip('+-')
        if re.match(r'^\d+$', v):
            return ('-' if neg else '') + v + '.0'
        if v.endswith('.'):
            v += '0'
        if v.startswith('.'):
            v = '0' + v
        v = re.sub(r'\.e', '.0e', v)
        return ('-' if neg else '') + litmap(v)
    for (t, nm, did) in fr.locals:
        if nm in pn:
            continue
        if nm in cinit:
            vals, dims = cinit[nm]
            if dims:
                L.append('  %s = {%s};' % (T.decl(t, nm), ', '.join(lit(v) for v in vals)))
            else:
                L.append('  %s = %s;' % (T.decl(t, nm), lit(vals[0])))
        else:
            L.append('  %s;' % T.decl(t, nm))
    pr.fn = fr
    pr.lines = []
    pr.stmt(fr.body, '  ')
    L += pr.lines
    L.append('}')
    parts.append('\n'.join(L))
    tag = '%s leaf randomize_particle vs particle' % propid
    H = ['void harness(void)', '{']
    H.append('  for (int i = 0; i < %d; i++) { double u = nondet_double(); __CPROVER_assume(u > 0.0 && u < 1.0); U[0][i] = u; }' % ND)
    H.append('  epoch_x = 0; idx_x = 0; epoch_r = 0; idx_r = 0; bx_exc = 0;')
    H.append('  static struct particle buf[BX_LEAF_N + 2];')
    H.append('  unsigned long n0 = nondet_ulong(); __CPROVER_assume(n0 <= BX_LEAF_N);')
    H.append('  for (int i = 0; i < BX_LEAF_N; i++) { buf[i]._time_ = nondet_double(); buf[i]._code_ = nondet_int(); }')
    H.append('  ev_x._particles_.data = buf; ev_x._particles_.size = n0; ev_x._particles_.cap = BX_LEAF_N + 2; ref_ev_npfull = (int)n0;')
    H.append('  int np = nondet_int(); __CPROVER_assume(np == 1 || np == 2 || np == 3 || np == 47);')
    vs = ['e1', 'e2', 'teta1', 'teta2', 'phi1', 'phi2', 'tclev', 'thlev']
    for v in vs:
        H.append('  double %s = nondet_double();' % v)
    H.append('  double tdx = nondet_double(), tdr = tdx;')
    H.append('  const double last0 = (n0 == 0) ? 0.0 : buf[n0 - 1]._time_;')
    H.append('  randomize_particle(&rng_x, &ev_x, np, %s, &tdx);' % ', '.join(vs))
    H.append('  int exc_x = bx_exc; bx_exc = 0;')
    H.append('  ref_particle(np, %s, &tdr);' % ', '.join(vs))
    H.append('  __CPROVER_assert(bx_cap_ok, "relational harness capacity (deviates) suffices");')
    H.append('  __CPROVER_assert(!exc_x, "%s: no exception for a known species");' % tag)
    H.append('  __CPROVER_assert(idx_x == idx_r, "%s: same number of deviates consumed (phi, cos theta, [E], [time] in the reference order)");' % tag)
    H.append('  __CPROVER_assert(ev_x._particles_.size == n0 + 1 && ref_ev_npfull == (int)n0 + 1, "%s: exactly one particle appended on both sides");' % tag)
    H.append('  __CPROVER_assert(buf[n0]._code_ == r_npgeant[n0 + 1] && buf[n0]._code_ == np, "%s: same species");' % tag)
    for k in range(3):
        H.append('  __CPROVER_assert(bx_same(buf[n0]._momentum_[%d], r_pmoment[%d][n0 + 1]), "%s: same momentum component %d");' % (k, k, tag, k + 1))
    H.append('  __CPROVER_assert(bx_same(tdx, tdr), "%s: same level decay delay tdlev");' % tag)
    H.append('  __CPROVER_assert(bx_same(r_ptime[n0 + 1], tdr), "%s: the reference stores the delay");' % tag)
    H.append('  __CPROVER_assert(bx_same(buf[n0]._time_, bx_add(last0, tdx)), "%s: C++ emission time = previous particle time + the reference delay (absolute instead of incremental times)");' % tag)
    H.append('  __CPROVER_assert(0, "canary leaf: harness end is reachable (must be refuted)");')
    H.append('}')
    parts.append('\n'.join(H))
    return {'c': '\n\n'.join(parts) + '\n', 'entry': 'harness',
            'meta': {'function': 'randomize_particle', 'reference': 'particle', 'what': 'rel', 'cuts': [], 'inlined': inl}}

#!/usr/bin/env python3
"""kernels.py -- levels L0-L2: the contracts of contracts/kernels.spec are ENFORCED on the real rendered bodies with
goto-instrument --dfcc; callees that have a contract are replaced by it (a caller never sees a callee body), tiny
accessors (particle::set_*, event::add_particle ...) and the shim models are inlined.

L0 (randomize_particle) carries a ghost epilogue that defines the ghost abstraction of the event
(g_np = size, g_tlast = time of the last particle, g_evis += booked energy): ghost code only, appended by the generator.
"""
import os, sys, re, copy
sys.path.insert(0, os.path.dirname(os.path.abspath(__file__)))
import bx2c, extract, oblig, segments

L0_EPILOGUE = '''
  /* ghost epilogue (generator): the ghost abstraction of the event after the leaf appended one particle */
  g_np = event_->_particles_.size;
  g_tlast = event_->_particles_.data[event_->_particles_.size - 1]._time_;
  g_evis = g_evis + E + (np_ == 2 ? 1.02199812 : 0.0);
'''

L0_LINK = ['event_->_particles_.size < BX_CAP - 1', 'g_np == event_->_particles_.size',
           '(event_->_particles_.size == 0 ? g_tlast == 0.0 : g_tlast == event_->_particles_.data[event_->_particles_.size - 1]._time_)']
L0_POST = ['event_->_particles_.size == __CPROVER_old(event_->_particles_.size) + 1',
           'event_->_particles_.data[event_->_particles_.size - 1]._code_ == np_',
           'event_->_particles_.data[event_->_particles_.size - 1]._time_ == g_tlast',
           # C04: finite momentum
           'event_->_particles_.data[event_->_particles_.size - 1]._momentum_[0] == event_->_particles_.data[event_->_particles_.size - 1]._momentum_[0]',
           'event_->_particles_.data[event_->_particles_.size - 1]._momentum_[1] == event_->_particles_.data[event_->_particles_.size - 1]._momentum_[1]',
           'event_->_particles_.data[event_->_particles_.size - 1]._momentum_[2] == event_->_particles_.data[event_->_particles_.size - 1]._momentum_[2]']


# contracts that are used by callers but not (yet) enforced on their bodies: reported as assumptions, never as proved
ASSUMED = {
    # (empty since the beta samplers are enforced through tools/betak.py)
}
# per-kernel extra cbmc flags.  PbAtShell: the vacancy loops run at most Lhole/Mhole <= 3 times; unwinding assertions make
# the bounded unrolling complete (a larger trip count fails the unwinding assertion, it is not silently cut)
EXTRA = {'PbAtShell': ('--unwindset', 'PbAtShell.0:6,PbAtShell.1:6,__CPROVER_contracts_write_set_check_assigns_clause_inclusion.0:40,__CPROVER_contracts_write_set_check_assignment.0:40,__CPROVER_contracts_write_set_check_assignment.1:40', '--unwinding-assertions')}


def mem_requires(f, level):
    out = []
    for (pre, nm, t, isref) in f.params:
        tt = bx2c.strip_cv(t.replace('&', '').replace('*', '').strip()).replace('bxdecay0::', '')
        isptr = isref or t.strip().endswith('*')
        if not isptr:
            continue
        if tt == 'i_random':
            out.append('__CPROVER_is_fresh(%s, sizeof(bx_prng))' % nm)
        elif tt == 'event':
            out.append('__CPROVER_is_fresh(%s, sizeof(struct event))' % nm)
            if level == 'L0':
                out.append('__CPROVER_is_fresh(%s->_particles_.data, BX_CAP * sizeof(struct particle))' % nm)
                out.append('%s->_particles_.cap == BX_CAP' % nm)
        elif tt == 'double':
            out.append('__CPROVER_is_fresh(%s, sizeof(double))' % nm)
    return out


DFCC_ASPECTS = ('time', 'enom', 'draws', 'count')   # 'evis' is discharged by the functional-stub queries below


def contract_clauses(f, c, consts, level, enforce):
    all_assigns = list(c.assigns)       # the frame always lists every ghost target (ghost code writes all aspects)
    c = oblig._Sel(c, lambda a: a is None or a in DFCC_ASPECTS)
    c.requires = [r for k, r in c.requires]
    c.assigns = all_assigns
    L = []
    for r in mem_requires(f, level) if enforce else []:
        L.append('__CPROVER_requires(%s)' % r)
    if enforce:
        L.append('__CPROVER_requires(!bx_exc)')
    if level == 'L0' and enforce:
        for r in L0_LINK:
            L.append('__CPROVER_requires(%s)' % r)
    for r in c.requires:
        L.append('__CPROVER_requires(%s)' % oblig.subst_consts(r, consts))
    tg = []
    for (t, lv) in c.assigns:
        if t == 'event':
            tg.append('__CPROVER_object_whole(%s)' % lv)
            if level == 'L0' and enforce:
                tg.append('__CPROVER_object_whole(%s->_particles_.data)' % lv)
        else:
            tg.append(lv)
    if enforce:
        tg.append('bx_exc')
    L.append('__CPROVER_assigns(%s)' % ', '.join(tg))
    for e in c.ensures:
        e2 = oblig.subst_consts(e, consts)
        e2 = re.sub(r'\bOLD_[DUI]\(', '__CPROVER_old(', e2)
        L.append('__CPROVER_ensures(%s)' % e2)
    if level == 'L0' and enforce:
        for e in L0_POST:
            L.append('__CPROVER_ensures(%s)' % e)
    if enforce:
        L.append('__CPROVER_ensures(!bx_exc)')
    return '\n'.join(L)


def kernel_functions(contracts):
    return [n for n, c in contracts.items() if c.level in ('L0', 'L1', 'L2')]


def closure(db, contracts, root):
    rep, inl, missing = [], [], []
    todo = sorted(db['funcs'][root].calls)
    seen = set()
    while todo:
        n = todo.pop()
        if n in seen or n == root:
            continue
        seen.add(n)
        if n in contracts and n in db['funcs'] and contracts[n].level in ('L0', 'L1', 'L2'):
            rep.append(n)
        elif n in db['funcs']:
            inl.append(n)
            todo += sorted(db['funcs'][n].calls)
        else:
            missing.append(n)
    return sorted(rep), sorted(inl), sorted(missing)


def build_kernel_query(db, contracts, consts, name, unwind=None):
    f = db['funcs'][name]
    c = contracts[name]
    T = db['types']
    rep, inl, missing = closure(db, contracts, name)
    if missing:
        raise bx2c.Unsupported('%s calls unrendered %s' % (name, missing))
    mt = {n for n in inl if db['funcs'][n].throws}
    parts = [oblig.prelude(db, '#define BX_CAP 8')]
    pr = bx2c.Printer(T, bx2c.Opts(), maythrow=mt)
    for n in rep:
        g = db['funcs'][n]
        parts.append(pr.signature(g) + '\n' + contract_clauses(g, contracts[n], consts, contracts[n].level, False) + ';')
    for n in inl:
        parts.append(bx2c.Printer(T, bx2c.Opts(), maythrow=mt).function(db['funcs'][n]))
    body = bx2c.Printer(T, bx2c.Opts(), maythrow=mt).function(f, contract=contract_clauses(f, c, consts, c.level, True))
    gpost = ''.join('  %s /* ghost */\n' % x for x in c.extra.get('ghost_post', []))
    gpre = ''.join('  %s /* ghost */\n' % x for x in c.extra.get('ghost_pre', []))
    if c.level == 'L0':
        gpost = L0_EPILOGUE + gpost
    if gpost:
        # ghost epilogue before the final 'return;' of the body (ghost code writes ghost variables only)
        i = body.rstrip().rfind('\n  return;')
        if i < 0 or body.count('\n  return;') != 1:
            raise bx2c.Unsupported('%s: ghost epilogue needs a single top-level final return' % name)
        body = body[:i + 1] + gpost + body[i + 1:]
    if gpre:
        i = body.index('{\n') + 2
        body = body[:i] + gpre + body[i:]
    parts.append(body)
    args = []
    H = ['void harness(void)', '{']
    for k, (pre, nm, t, isref) in enumerate(f.params):
        d = T.decl(t, 'a%d' % k)
        H.append('  %s;' % d)
        args.append('a%d' % k)
    H.append('  %s(%s);' % (name, ', '.join(args)))
    H.append('}')
    parts.append('\n'.join(H))
    meta = {'function': name, 'level': c.level, 'replaced': rep, 'inlined': inl, 'what': 'kernel', 'canary': False}
    return {'c': '\n\n'.join(parts) + '\n', 'entry': 'harness', 'meta': meta,
            'dfcc': {'enforce': name, 'replace': rep, 'loop_contracts': False}}


def build_evis_query(db, contracts, consts, name):
    """the booked-energy (g_evis) clauses of a kernel contract, checked on the real body with functional stubs:
    every callee's  g_evis == OLD(g_evis) + ...  clause becomes an assignment, so the body's accumulated value and the
    contract's right-hand side are computed from the same inputs.  Also discharges lemma_evis: |booked - nominal| <= eps."""
    f = db['funcs'][name]
    c = contracts[name]
    T = db['types']
    if c.level == 'L0':
        # the leaf's booked-energy clause IS the ghost definition (L0_EPILOGUE: g_evis += E + 1.022 for a positron); without
        # that epilogue the clause fails trivially -- a harness artefact that once surfaced as a violation of the unchanged
        # tree in the thorough tier (DESIGN 9.11).  There is nothing to discharge for the leaf.
        return None
    rep, inl, missing = closure(db, contracts, name)
    if missing:
        raise bx2c.Unsupported('%s calls unrendered %s' % (name, missing))
    mt = {n for n in inl if db['funcs'][n].throws}
    parts = [oblig.prelude(db, '')]
    for n in rep:
        parts.append(oblig.stub_text(db, contracts[n], consts, 'light', ('evis',)))
    for n in inl:
        parts.append(bx2c.Printer(T, bx2c.Opts(), maythrow=mt).function(db['funcs'][n]))
    body = bx2c.Printer(T, bx2c.Opts(), maythrow=mt).function(f)
    gpost = ''.join('  %s /* ghost */\n' % x for x in c.extra.get('ghost_post', []))
    gpre = ''.join('  %s /* ghost */\n' % x for x in c.extra.get('ghost_pre', []))
    if gpost:
        i = body.rstrip().rfind('\n  return;')
        body = body[:i + 1] + gpost + body[i + 1:]
    if gpre:
        i = body.index('{\n') + 2
        body = body[:i] + gpre + body[i:]
    parts.append(body)
    H = ['void harness(void)', '{', '  bx_prng rng; struct event ev; ev._particles_.data = 0; ev._particles_.size = 0; ev._particles_.cap = 0;',
         '  bx_exc = 0; g_evis = nondet_double(); __CPROVER_assume(g_evis >= 0.0 && g_evis <= 100.0); g_enom = 0.0;']
    args = []
    for k, (pre, nm, t, isref) in enumerate(f.params):
        b = bx2c.strip_cv(t.replace('&', '').replace('*', '').strip()).replace('bxdecay0::', '')
        if b == 'i_random':
            args.append('&rng')
        elif b == 'event':
            args.append('&ev')
        elif isref or t.strip().endswith('*'):
            H.append('  %s %s_v;' % (T.c(t.replace('&', '').replace('*', '')), nm))
            args.append('&%s_v' % nm)
        else:
            H.append('  %s %s = nondet_%s();' % (T.c(t), nm, 'double' if T.c(t) == 'double' else 'int'))
            args.append(nm)
    sel = oblig._Sel(c, lambda a: True)
    for k, r in sel.requires:
        r2 = oblig.subst_consts(r, consts)
        if 'g_tlast' in r2 or 'g_evis' in r2 or 'g_enom' in r2:
            continue
        H.append('  __CPROVER_assume(%s);' % re.sub(r'\*(\w+)', r'\1_v', r2))
    H.append('  const double evis0 = g_evis;')
    H.append('  %s(%s);' % (name, ', '.join(args)))
    n_as = 0
    for e, a in zip(c.ensures, c.ens_asp):
        if a != 'evis':
            continue
        e2 = oblig.subst_consts(e, consts).replace('OLD_D(g_evis)', 'evis0')
        H.append('  __CPROVER_assert(%s, "C03 %s: booked energy clause: %s");' % (e2, name, e.replace('"', "'")))
        n_as += 1
    if 'lemma_evis' in c.extra:
        nom, eps = c.extra['lemma_evis'].split()
        H.append('  __CPROVER_assert(g_evis - evis0 - %s <= %s && g_evis - evis0 - %s >= -%s, "C03 %s: booked energy within %s MeV of the nominal %s");' % (nom, eps, nom, eps, name, eps, nom))
        n_as += 1
    if n_as == 0:
        return None
    H.append('  __CPROVER_assert(0, "canary %s: harness end is reachable (must be refuted)");' % name)
    H.append('}')
    parts.append('\n'.join(H))
    return {'c': '\n\n'.join(parts) + '\n', 'entry': 'harness', 'meta': {'function': name, 'level': c.level, 'what': 'evis', 'stubs': rep, 'inlined': inl}}


# kernels whose contract is enforced through the generator's own harness (assume requires; run the real body against
# callee stubs; assert ensures) instead of goto-instrument --dfcc: PbAtShell's two vacancy loops make the DFCC
# instrumentation (write-set bookkeeping inside unrolled loops) take > 20 min, the direct harness takes seconds.
# Its frame is then covered by the AST frame scan (C07) like the L3 routines.
STUB_ENFORCE = {'PbAtShell': ('--unwind', '8', '--unwinding-assertions')}


def build_stub_enforce_query(db, contracts, consts, name):
    f = db['funcs'][name]
    c = contracts[name]
    T = db['types']
    rep, inl, missing = closure(db, contracts, name)
    if missing:
        raise bx2c.Unsupported('%s calls unrendered %s' % (name, missing))
    aspects = ('count', 'draws', 'enom', 'time')
    parts = [oblig.prelude(db, '')]
    for n in rep:
        parts.append(oblig.stub_text(db, contracts[n], consts, 'light', aspects))
    for n in inl:
        parts.append(bx2c.Printer(T, bx2c.Opts()).function(db['funcs'][n]))
    parts.append(bx2c.Printer(T, bx2c.Opts()).function(f))
    H = ['void harness(void)', '{', '  bx_prng rng; struct event ev; ev._particles_.data = 0; ev._particles_.size = 0; ev._particles_.cap = 0;',
         '  bx_exc = 0; g_np = nondet_ulong(); g_draws = nondet_ulong(); g_enom = nondet_double(); g_tlast = nondet_double(); g_evis = nondet_double();',
         '  __CPROVER_assume(g_np <= 1000 && g_draws <= 1000000);']
    args = []
    ren = {}
    for k, (pre, nm, t, isref) in enumerate(f.params):
        b = bx2c.strip_cv(t.replace('&', '').replace('*', '').strip()).replace('bxdecay0::', '')
        if b == 'i_random':
            args.append('&rng')
        elif b == 'event':
            args.append('&ev')
        elif isref or t.strip().endswith('*'):
            H.append('  %s %s_v = nondet_double();' % (T.c(t.replace('&', '').replace('*', '')), nm))
            args.append('&%s_v' % nm)
            ren[nm] = nm + '_v'
        else:
            H.append('  %s %s = nondet_%s();' % (T.c(t), nm, 'double' if T.c(t) == 'double' else 'int'))
            args.append(nm)

    def fix(x):
        x = oblig.subst_consts(x, consts)
        for a, b in ren.items():
            x = re.sub(r'\*%s\b' % re.escape(a), b, x)
        return x
    sel = oblig._Sel(c, lambda a: a is None or a in aspects)
    for k, r in sel.requires:
        H.append('  __CPROVER_assume(%s);' % fix(r))
    olds = {}
    ens = []
    for e in sel.ensures:
        e2 = fix(e)
        for (a, b, kind, inner) in sorted(oblig.find_old(e2), reverse=True):
            key = (kind, inner)
            if key not in olds:
                olds[key] = 'bx_old_%d' % len(olds)
            e2 = e2[:a] + olds[key] + e2[b:]
        ens.append((e, e2))
    for (kind, inner), v in olds.items():
        H.append('  const %s %s = (%s);' % (oblig.OLDT[kind], v, inner))
    H.append('  %s(%s);' % (name, ', '.join(args)))
    H.append('  __CPROVER_assert(!bx_exc, "C04 %s: no exception under its precondition");' % name)
    for e, e2 in ens:
        pid = 'C03' if re.search(r'g_evis|g_enom', e) else 'C04'
        H.append('  __CPROVER_assert(%s, "%s %s ensures: %s");' % (e2, pid, name, e.replace('"', "'")))
    H.append('  __CPROVER_assert(0, "canary %s: harness end is reachable (must be refuted)");' % name)
    H.append('}')
    parts.append('\n'.join(H))
    return {'c': '\n\n'.join(parts) + '\n', 'entry': 'harness',
            'meta': {'function': name, 'level': c.level, 'what': 'c04', 'stubs': rep, 'inlined': inl, 'enforced_by': 'generator harness (not DFCC)'}}

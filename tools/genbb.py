#!/usr/bin/env python3
"""genbb.py -- obligations on genbbsub (level L5).

C06: for every catalogued double-beta isotope (concrete name) and ALL int values of ilevel and modebb, the rendered
     genbbsub initialisation returns ier == 0 exactly when the reference GENBBsub (rendered by f77c for the same name)
     does, and then sets Qbb, Zdbb, Adbb, EK, levelE, itrans02 as the reference does; independent cross-check of the
     level table against README Appendix 1; the rules named in the property (4-beta only for Zr96/Xe136/Nd150, modes
     9-12 only for Z<0, modes 1..20) as direct assertions.
C05: for every published background name the generate phase calls exactly the documented scheme routine(s), once, in
     order (ghost call log); the published name initialises; event time 0 and generator label (C04).
"""
import os, sys, re, copy
sys.path.insert(0, os.path.dirname(os.path.abspath(__file__)))
import bx2c, extract, oblig, f77c, native
from bx2c import S, E, Unsupported

REPO = bx2c.REPO


def readme_levels():
    """README Appendix 1: isotope -> [(spin text, energy MeV)]"""
    txt = open(os.path.join(REPO, 'README.rst')).read()
    i = txt.index('List of daughter nucleus excited states in double beta decay')
    sec = txt[i:]
    j = sec.find('\nList of ', 10)
    if j > 0:
        sec = sec[:j]
    out = {}
    cur = None
    for ln in sec.split('\n'):
        m = re.match(r'^\* ``(\w+)`` ->', ln)
        if m:
            cur = m.group(1)
            out[cur] = []
            continue
        m = re.match(r'^\s+(\d+)\.\s+(\S+)\s+(?:\(\S+\)\s*)?[\{\(]([\d.]+) MeV\}', ln)
        if m and cur:
            assert int(m.group(1)) == len(out[cur]), (cur, ln)
            out[cur].append((m.group(2), float(m.group(3))))
    return out


def readme_names():
    txt = open(os.path.join(REPO, 'README.rst')).read()

    def names_after(marker):
        i = txt.index(marker)
        out = []
        started = False
        for ln in txt[i:].split('\n')[1:]:
            m = re.match(r'^\* ``([^`]+)``(?:\s+\(for ``([^`]+)``\))?', ln)
            if m:
                out.append((m.group(1), m.group(2) or m.group(1)))
                started = True
            elif started and ln.strip() and not ln.startswith('*'):
                break
        return out
    return names_after('From the ``background_isotopes.lis`` resource file'), names_after('From the ``dbd_isotopes.lis`` resource file')


def print_ref_function(f, T):
    pr = bx2c.Printer(T, bx2c.Opts())
    L = [pr.signature(f), '{']
    pn = {p[1] for p in f.params}
    for (t, nm, did) in f.locals:
        if nm in pn:
            continue
        L.append('  %s;' % T.decl(t, nm))
    pr.fn = f
    pr.lines = []
    pr.stmt(f.body, '  ')
    L += pr.lines
    L.append('}')
    return '\n'.join(L)


def common_inits(f, prog):
    out = []
    for nm, (t_, dims) in sorted(getattr(f, 'commons', {}).items()):
        vals = prog.common_init.get(nm)
        if vals is None:
            raise Unsupported('common variable %s has no block-data value' % nm)
        out.append((nm, vals, dims))
    return out


def genbbsub_closure(db, keep_real):
    """functions to render with real bodies for a genbbsub query; everything else genbbsub calls becomes a stub"""
    real = []
    todo = ['genbbsub']
    stubs = []
    while todo:
        n = todo.pop()
        if n in real:
            continue
        real.append(n)
        for c in sorted(db['funcs'][n].calls):
            if c in keep_real or c.startswith(('event__', 'particle__')) or c in ('name_starts_with',):
                if c in db['funcs']:
                    todo.append(c)
            elif c not in stubs:
                stubs.append(c)
    return real, stubs


def build_c06_query(db, prog, name, levels, known_where=(), known_where7=()):
    T = db['types']
    fr = f77c.genbb_init_function(prog, name)
    real, stubs = genbbsub_closure(db, ('decay0_emass', 'electron_mass_MeV', 'particle_mass_MeV'))
    mt = set()
    parts = [oblig.prelude(db, '#define BX_CAP 8')]
    pr = bx2c.Printer(T, bx2c.Opts())
    for s in stubs:
        g = db['funcs'][s]
        # init never reaches the scheme routines; decay0_bb(init) only fills the spectrum part of bbpars, which is not
        # compared here: empty bodies
        parts.append(pr.signature(g) + '\n{\n' + ('  %s bx_r; return bx_r;\n' % g.ret if g.ret != 'void' else '') + '}')
    for n in reversed(real):
        parts.append(bx2c.Printer(T, bx2c.Opts()).function(db['funcs'][n]))
    txt = print_ref_function(fr, T)
    for nm, vals, dims in common_inits(fr, prog):
        if dims:
            continue
        txt = txt.replace('  double %s;' % nm, '  double %s = %s;' % (nm, vals[0]))
    parts.append(txt)
    H = ['void harness(void)', '{']
    H.append('  bx_prng rng; struct event ev; struct bbpars pars;')
    H.append('  ev._particles_.data = 0; ev._particles_.size = 0; ev._particles_.cap = 0; ev._generator_.s = ""; ev._generator_.n = 0;')
    H.append('  int ilevel = nondet_int(); int modebb = nondet_int(); bx_exc = 0;')
    H.append('  bx_string nm = BX_STR_LIT("%s");' % name)
    H.append('  int ier_x = nondet_int();')
    H.append('  struct bbpars pars0 = pars;')
    H.append('  genbbsub(&rng, &ev, 1, &nm, ilevel, modebb, -1, &ier_x, &pars);')
    H.append('  /* values left over from an earlier use are the same state on both sides */')
    H.append('  int ier_r = 0; double q = pars0.Qbb, z = pars0.Zdbb, a = pars0.Adbb, ek = pars0.EK; int le = pars0.bx_base_enrange.levelE, it = pars0.bx_base_enrange.itrans02;')
    H.append('  ref_genbbinit(ilevel, modebb, &ier_r, &q, &z, &a, &ek, &le, &it);')
    tag = 'C06 %s' % name
    H.append('  int cex_ilevel = ilevel, cex_modebb = modebb, cex_ier_cxx = ier_x, cex_ier_ref = ier_r;   /* read back from traces */')
    H.append('  int cex_levelE_cxx = pars.bx_base_enrange.levelE, cex_levelE_ref = le, cex_itrans_cxx = pars.bx_base_enrange.itrans02, cex_itrans_ref = it;')
    H.append('  __CPROVER_assert(!bx_exc, "%s: initialisation raises no exception");' % tag)
    kw = ' || '.join('(%s)' % w for w in known_where)
    if kw:
        # configurations listed in known_findings.txt are checked by their own assertion; every other configuration still binds
        H.append('  __CPROVER_assert((%s) || ((ier_x == 0) == (ier_r == 0)), "%s: accepted exactly when the reference accepts (all levels, all modes)");' % (kw, tag))
        H.append('  __CPROVER_assert(!(%s) || ((ier_x == 0) == (ier_r == 0)), "%s: accepted exactly when the reference accepts [where %s]");' % (kw, tag, ','.join(known_where)))
    else:
        H.append('  __CPROVER_assert((ier_x == 0) == (ier_r == 0), "%s: accepted exactly when the reference accepts (all levels, all modes)");' % tag)
    H.append('  if (ier_x == 0 && ier_r == 0) {')
    H.append('    __CPROVER_assert(pars.Qbb == q, "%s: Q-value as in the reference");' % tag)
    H.append('    __CPROVER_assert(pars.Zdbb == z && pars.Adbb == a, "%s: daughter Z and A as in the reference");' % tag)
    H.append('    __CPROVER_assert(pars.EK == ek, "%s: K-shell binding energy as in the reference");' % tag)
    H.append('    __CPROVER_assert(pars.bx_base_enrange.levelE == le, "%s: level energy as in the reference");' % tag)
    H.append('    __CPROVER_assert(pars.bx_base_enrange.itrans02 == it, "%s: level spin flag as in the reference");' % tag)
    H.append('    __CPROVER_assert(pars.modebb == modebb && modebb >= 1 && modebb <= 20, "%s: a legacy mode 1..20 is recorded");' % tag)
    H.append('    __CPROVER_assert(modebb != 20 || %s, "%s: quadruple beta only for Zr96, Xe136, Nd150");' % ('1' if name in ('Zr96', 'Xe136', 'Nd150') else '0', tag))
    H.append('    __CPROVER_assert(pars.Zdbb < 0.0 || !(modebb >= 9 && modebb <= 12), "%s: capture modes 9-12 only for Z<0 processes");' % tag)
    H.append('    __CPROVER_assert(pars.istartbb == 0, "%s: the spectrum is marked for re-computation");' % tag)
    if levels is not None:
        H.append('    __CPROVER_assert(ilevel >= 0 && ilevel < %d, "%s: only levels listed in README Appendix 1 are accepted");' % (len(levels), tag))
        for i, (spin, e) in enumerate(levels):
            kev = int(round(e * 1000))
            sp = {'0+': 0, '2+': 2}.get(spin)
            spc = (' && pars.bx_base_enrange.itrans02 == %d' % sp) if sp is not None else ''
            H.append('    __CPROVER_assert(ilevel != %d || (pars.bx_base_enrange.levelE == %d%s), "%s: level %d is %s at %d keV (README Appendix 1)");' % (i, kev, spc, tag, i, spin, kev))
    H.append('  }')
    # C07: the configuration alone determines what initialisation leaves behind: a second bbpars with arbitrary other
    # contents (any history) ends in the same state
    kw7 = ' || '.join('(%s)' % w for w in known_where7)
    H.append('  { struct bbpars pars2; int ier2 = nondet_int();')
    H.append('    genbbsub(&rng, &ev, 1, &nm, ilevel, modebb, -1, &ier2, &pars2);')
    if kw7:
        H.append('    __CPROVER_assert((%s) || ier2 == ier_x, "C07 %s: accept/reject does not depend on what the parameter block held before");' % (kw7, name))
        H.append('    __CPROVER_assert(!(%s) || ier2 == ier_x, "C07 %s: accept/reject does not depend on what the parameter block held before [where %s]");' % (kw7, name, ','.join(known_where7)))
    else:
        H.append('    __CPROVER_assert(ier2 == ier_x, "C07 %s: accept/reject does not depend on what the parameter block held before");' % name)
    c7 = ('pars2.Qbb == pars.Qbb && pars2.Zdbb == pars.Zdbb && pars2.Adbb == pars.Adbb && pars2.EK == pars.EK && '
          'pars2.bx_base_enrange.levelE == pars.bx_base_enrange.levelE && pars2.bx_base_enrange.itrans02 == pars.bx_base_enrange.itrans02 && '
          'pars2.modebb == pars.modebb && pars2.istartbb == pars.istartbb')
    if kw7:
        H.append('    if (ier2 == 0 && ier_x == 0) { __CPROVER_assert((%s) || (%s), "C07 %s: every field read by generation is (re)written by initialisation");' % (kw7, c7, name))
        H.append('      __CPROVER_assert(!(%s) || (%s), "C07 %s: every field read by generation is (re)written by initialisation [where %s]"); }' % (kw7, c7, name, ','.join(known_where7)))
    else:
        H.append('    if (ier2 == 0 && ier_x == 0) __CPROVER_assert(%s, "C07 %s: every field read by generation is (re)written by initialisation");' % (c7, name))
    H.append('  }')
    H.append('  __CPROVER_assert(0, "canary %s: harness end is reachable (must be refuted)");' % name)
    H.append('}')
    parts.append('\n'.join(H))
    meta = {'function': 'genbbsub', 'what': 'c06', 'isotope': name, 'canonical': getattr(fr, 'canonical', None),
            'readme_levels': len(levels) if levels is not None else None}
    return {'c': '\n\n'.join(parts) + '\n', 'entry': 'harness', 'meta': meta}


# ----------------------------------------------------------------------------------------------
# C05
# ----------------------------------------------------------------------------------------------

# daughters that genbbsub itself chains (README: "Bi212+Po212", ...): (daughter, condition)
CHAINS = {'Bi212': ('Po212', 'noalpha'), 'Bi214': ('Po214', 'noalpha'), 'Ca48': ('Sc48', 'always'), 'Zr96': ('Nb96', 'always')}
ROUTINE_OF = {'Ta180m-B-': 'Ta180mB', 'Ta180m-EC': 'Ta180mEC'}


def scheme_routine(name):
    head = name.split('+')[0]
    return ROUTINE_OF.get(head, head)


def build_c05_query(db, name, ids):
    """background generate phase for a published name: call log against the documented scheme"""
    T = db['types']
    real, stubs = genbbsub_closure(db, ('decay0_emass', 'electron_mass_MeV', 'particle_mass_MeV'))
    parts = [oblig.prelude(db, '#define BX_CAP 16')]
    parts.append('static int g_calls[8]; static int g_ncalls; static double g_td[8]; static unsigned long g_size_at[8];')
    pr = bx2c.Printer(T, bx2c.Opts())
    for s in stubs:
        g = db['funcs'][s]
        L = [pr.signature(g), '{']
        ps = [p[1] for p in g.params]
        evn = next((p[1] for p in g.params if 'event' in p[2]), None)
        is_scheme = (len(g.params) == 4 and evn and 'i_random' in g.params[0][2] and g.params[3][3] and 'double' in g.params[3][2])
        if is_scheme:
            tdn = g.params[3][1]
            sid = ids.setdefault(s, len(ids) + 1)
            # a scheme routine: log it, append 1..3 particles with arbitrary species/times, return an arbitrary decay time
            L.append('  __CPROVER_assert(g_ncalls < 8, "call log capacity");')
            L.append('  g_calls[g_ncalls] = %d; g_size_at[g_ncalls] = %s->_particles_.size;' % (sid, evn))
            L.append('  int k = nondet_int(); __CPROVER_assume(k >= 1 && k <= 3);')
            L.append('  for (int i = 0; i < 3; i++) if (i < k) { struct particle p; p._code_ = nondet_int(); __CPROVER_assume(p._code_ == 1 || p._code_ == 2 || p._code_ == 3 || p._code_ == 47);'
                     ' p._time_ = nondet_double(); __CPROVER_assume(p._time_ >= 0.0 && p._time_ <= 1.0e30); p._momentum_[0] = 0.0; p._momentum_[1] = 0.0; p._momentum_[2] = 1.0;'
                     ' bx_vec_particle_push_back(&%s->_particles_, &p); }' % evn)
            L.append('  double td = nondet_double(); __CPROVER_assume(td >= 0.0 && td <= 1.0e30); *%s = td; g_td[g_ncalls] = td; g_ncalls = g_ncalls + 1;' % tdn)
        elif g.ret != 'void':
            L.append('  %s bx_r; return bx_r;' % g.ret)
        L.append('}')
        parts.append('\n'.join(L))
    for n in reversed(real):
        parts.append(bx2c.Printer(T, bx2c.Opts()).function(db['funcs'][n]))
    head = scheme_routine(name)
    if head not in ids:
        raise Unsupported('no scheme routine %s is dispatched by genbbsub for %s' % (head, name))
    H = ['void harness(void)', '{']
    H.append('  bx_prng rng; struct event ev; struct bbpars pars;')
    H.append('  ev._particles_.cap = BX_CAP; ev._particles_.data = (struct particle *)malloc(BX_CAP * sizeof(struct particle)); __CPROVER_assume(ev._particles_.data != 0);')
    H.append('  ev._particles_.size = 0; ev._generator_.s = ""; ev._generator_.n = 0; ev._time_ = nondet_double(); bx_exc = 0; g_ncalls = 0;')
    H.append('  bx_string nm = BX_STR_LIT("%s");' % name)
    H.append('  int ier = nondet_int();')
    H.append('  genbbsub(&rng, &ev, 2, &nm, 0, 0, -1, &ier, &pars);')
    tag = 'C05 %s' % name
    H.append('  __CPROVER_assert(ier == 0 && !bx_exc, "%s: the published name initialises");' % tag)
    H.append('  __CPROVER_assert(g_ncalls == 0 && ev._particles_.size == 0, "%s: initialisation generates nothing");' % tag)
    H.append('  genbbsub(&rng, &ev, 2, &nm, 0, 0, 1, &ier, &pars);')
    H.append('  __CPROVER_assert(ier == 0 && !bx_exc, "%s: the published name generates");' % tag)
    H.append('  __CPROVER_assert(g_ncalls >= 1 && g_calls[0] == %d, "%s: the first scheme run is %s");' % (ids[head], tag, head))
    ch = CHAINS.get(head)
    if ch is None:
        H.append('  __CPROVER_assert(g_ncalls == 1, "%s: exactly one decay scheme runs (never the concatenation of two nuclides)");' % tag)
    else:
        d, cond = ch
        if d not in ids:
            raise Unsupported('daughter routine %s not dispatched' % d)
        if cond == 'noalpha':
            H.append('  if (ev._particles_.data[0]._code_ == 47) __CPROVER_assert(g_ncalls == 1, "%s: alpha branch of %s: no daughter decay appended");' % (tag, head))
            H.append('  else {')
        else:
            H.append('  {')
        H.append('    __CPROVER_assert(g_ncalls == 2 && g_calls[1] == %d, "%s: followed by exactly its documented daughter %s");' % (ids[d], tag, d))
        H.append('    for (unsigned long i = 0; i < BX_CAP; i++) if (i < ev._particles_.size && i >= g_size_at[1])')
        H.append('      __CPROVER_assert(ev._particles_.data[i]._time_ >= g_td[1], "%s: daughter particles are delayed by the daughter decay time");' % tag)
        H.append('  }')
    H.append('  __CPROVER_assert(ev._time_ == 0.0, "C04 %s: event reference time is 0");' % name)
    H.append('  __CPROVER_assert(bx_string_eq(&ev._generator_, &nm), "C04 %s: generator label is the requested name");' % name)
    H.append('  __CPROVER_assert(0, "canary %s: harness end is reachable (must be refuted)");' % name)
    H.append('}')
    parts.append('\n'.join(H))
    return {'c': '\n\n'.join(parts) + '\n', 'entry': 'harness', 'meta': {'function': 'genbbsub', 'what': 'c05', 'name': name, 'scheme': head}}


def dispatch_literals(db):
    """string literals of the name tests in genbbsub (init chain / generate chain), from the rendered IR"""
    f = db['funcs']['genbbsub']
    lits = []

    def fe(e):
        if e.k == 'call' and e.a == 'BX_STR_LIT':
            for x in e.args:
                if x.k == 'slit':
                    lits.append(x.name.strip('"'))

    def fs(s):
        for a in ('cond', 'e', 'init'):
            x = getattr(s, a, None)
            if isinstance(x, E):
                bx2c.walk_expr(x, fe)
            elif isinstance(x, S):
                fs(x)
        for y in getattr(s, 'items', []) or []:
            fs(y)
        for a in ('then', 'els', 'stmt', 'body'):
            y = getattr(s, a, None)
            if isinstance(y, S):
                fs(y)
    fs(f.body)
    return lits


# ----------------------------------------------------------------------------------------------
# C05 (double-beta names) + the C03 tie between the level table and the cascade routines
# ----------------------------------------------------------------------------------------------

def readme_dbd():
    """README: isotope -> (daughter, published chain spelling or None)"""
    txt = open(os.path.join(REPO, 'README.rst')).read()
    out = {}
    i = txt.index('From the ``dbd_isotopes.lis`` resource file')
    for ln in txt[i:].split('\n')[1:]:
        m = re.match(r'^\* ``([^`]+)``(?:\s+\(for ``([^`]+)``\))?', ln)
        if m:
            out[m.group(1)] = [None, m.group(2)]
        elif out and ln.strip() and not ln.startswith('*'):
            break
    j = txt.index('List of daughter nucleus excited states in double beta decay')
    for m in re.finditer(r'^\* ``(\w+)`` ->\s+``(\w+)``', txt[j:], re.M):
        if m.group(1) in out:
            out[m.group(1)][0] = m.group(2)
    return out


def build_c05_dbd_query(db, name, daughter, chain, ids):
    T = db['types']
    real, stubs = genbbsub_closure(db, ('decay0_emass', 'electron_mass_MeV', 'particle_mass_MeV'))
    parts = [oblig.prelude(db, '#define BX_CAP 16')]
    parts.append('static int g_calls[8]; static int g_ncalls; static double g_td[8]; static unsigned long g_size_at[8]; static int g_lev[8];')
    pr = bx2c.Printer(T, bx2c.Opts())
    for s in stubs:
        g = db['funcs'][s]
        L = [pr.signature(g), '{']
        ps = [p[1] for p in g.params]
        evn = next((p[1] for p in g.params if 'event' in p[2]), None)
        sid = None
        if s == 'decay0_bb':
            sid = ids.setdefault(s, len(ids) + 1)
            L.append('  __CPROVER_assert(g_ncalls < 8, "call log capacity");')
            L.append('  g_calls[g_ncalls] = %d; g_size_at[g_ncalls] = %s->_particles_.size; g_ncalls = g_ncalls + 1;' % (sid, evn))
            L.append('  { struct particle p; p._code_ = 3; p._time_ = 0.0; p._momentum_[0] = 0.0; p._momentum_[1] = 0.0; p._momentum_[2] = 1.0; bx_vec_particle_push_back(&%s->_particles_, &p); }' % evn)
        elif len(g.params) == 3 and evn and s.endswith('low'):
            sid = ids.setdefault(s, len(ids) + 1)
            lvn = g.params[2][1]
            lv = oblig.level_literals(g, lvn)
            L.append('  __CPROVER_assert(g_ncalls < 8, "call log capacity");')
            if lv:
                L.append('  __CPROVER_assert(%s, "C03 %s: the level handed to the cascade is one that %s releases (ties the level table to the cascade)");' % (' || '.join('%s == %d' % (lvn, v) for v in lv), name, s))
            L.append('  g_calls[g_ncalls] = %d; g_lev[g_ncalls] = %s; g_size_at[g_ncalls] = %s->_particles_.size; g_ncalls = g_ncalls + 1;' % (sid, lvn, evn))
            L.append('  if (nondet_int()) { struct particle p; p._code_ = 1; p._time_ = 0.0; p._momentum_[0] = 0.0; p._momentum_[1] = 0.0; p._momentum_[2] = 1.0; bx_vec_particle_push_back(&%s->_particles_, &p); }' % evn)
        elif len(g.params) == 4 and evn and 'i_random' in g.params[0][2] and g.params[3][3]:
            sid = ids.setdefault(s, len(ids) + 1)
            L.append('  __CPROVER_assert(g_ncalls < 8, "call log capacity");')
            L.append('  g_calls[g_ncalls] = %d; g_size_at[g_ncalls] = %s->_particles_.size;' % (sid, evn))
            L.append('  { struct particle p; p._code_ = 47; p._time_ = nondet_double(); __CPROVER_assume(p._time_ >= 0.0 && p._time_ <= 1.0e30); p._momentum_[0] = 0.0; p._momentum_[1] = 0.0; p._momentum_[2] = 1.0; bx_vec_particle_push_back(&%s->_particles_, &p); }' % evn)
            L.append('  double td = nondet_double(); __CPROVER_assume(td >= 0.0 && td <= 1.0e30); *%s = td; g_td[g_ncalls] = td; g_ncalls = g_ncalls + 1;' % g.params[3][1])
        elif g.ret != 'void':
            L.append('  %s bx_r; return bx_r;' % g.ret)
        L.append('}')
        parts.append('\n'.join(L))
    for n in reversed(real):
        parts.append(bx2c.Printer(T, bx2c.Opts()).function(db['funcs'][n]))
    if chain:
        ds = chain.split('+')[1:]
        expect = [ds[0] + 'low'] + ds
    else:
        expect = [daughter + 'low']
    for e in expect:
        if e not in ids:
            raise Unsupported('routine %s (from the README) is not dispatched by genbbsub' % e)
    tag = 'C05 %s' % name
    H = ['void harness(void)', '{']
    H.append('  bx_prng rng; struct event ev; struct bbpars pars;')
    H.append('  ev._particles_.cap = BX_CAP; ev._particles_.data = (struct particle *)malloc(BX_CAP * sizeof(struct particle)); __CPROVER_assume(ev._particles_.data != 0);')
    H.append('  ev._particles_.size = 0; ev._generator_.s = ""; ev._generator_.n = 0; ev._time_ = nondet_double(); bx_exc = 0; g_ncalls = 0;')
    H.append('  bx_string nm = BX_STR_LIT("%s");' % name)
    H.append('  int ilevel = nondet_int(), modebb = nondet_int(), ier = nondet_int();')
    H.append('  genbbsub(&rng, &ev, 1, &nm, ilevel, modebb, -1, &ier, &pars);')
    H.append('  __CPROVER_assume(ier == 0 && !bx_exc);   /* every accepted configuration (which ones: C06) */')
    H.append('  g_ncalls = 0; ev._particles_.size = 0;')
    H.append('  genbbsub(&rng, &ev, 1, &nm, ilevel, modebb, 1, &ier, &pars);')
    H.append('  __CPROVER_assert(ier == 0 && !bx_exc, "%s: an accepted configuration generates");' % tag)
    H.append('  __CPROVER_assert(g_ncalls == %d, "%s: the primary process, the daughter cascade and the documented chain run, nothing else");' % (1 + len(expect), tag))
    H.append('  __CPROVER_assert(g_ncalls >= 1 && g_calls[0] == %d, "%s: the double-beta process comes first");' % (ids['decay0_bb'], tag))
    for k, e in enumerate(expect):
        H.append('  __CPROVER_assert(g_ncalls > %d && g_calls[%d] == %d, "%s: step %d is %s");' % (k + 1, k + 1, ids[e], tag, k + 1, e))
    H.append('  __CPROVER_assert(g_ncalls < 2 || g_lev[1] == %s, "%s: the cascade starts at the level set by initialisation");' % ('0' if chain else 'pars.bx_base_enrange.levelE', tag))
    if chain:
        H.append('  for (int c = 2; c < 8; c++) if (c < g_ncalls) for (unsigned long i = 0; i < BX_CAP; i++) if (i < ev._particles_.size && i >= g_size_at[c] && (c + 1 >= g_ncalls || i < g_size_at[c + 1]))')
        H.append('    __CPROVER_assert(ev._particles_.data[i]._time_ >= g_td[c], "%s: chain daughters are delayed by their decay time");' % tag)
    H.append('  __CPROVER_assert(ev._time_ == 0.0, "C04 %s: event reference time is 0");' % name)
    H.append('  __CPROVER_assert(bx_string_eq(&ev._generator_, &nm), "C04 %s: generator label is the requested name");' % name)
    H.append('  __CPROVER_assert(0, "canary %s: harness end is reachable (must be refuted)");' % name)
    H.append('}')
    parts.append('\n'.join(H))
    return {'c': '\n\n'.join(parts) + '\n', 'entry': 'harness', 'meta': {'function': 'genbbsub', 'what': 'c05', 'name': name, 'expect': expect}}

#!/usr/bin/env python3
"""bx2c -- mechanical C rendering of the real C++ functions of /repo/bxdecay0.

Input : clang++ -Xclang -ast-dump=json of the real translation unit (filter bxdecay0::).
Output: a statement IR per function definition (class Func) that can be printed as C in
        several variants (IEEE / UF arithmetic, plain / label-machine segments).

Every AST node kind outside the whitelist raises Unsupported -> the caller reports
"extraction unsupported" (exit 2), never a verdict.
"""
import json, os, re, subprocess, hashlib, sys

REPO = os.environ.get('BX_REPO', '/repo')


class Unsupported(Exception):
    pass


# ----------------------------------------------------------------------------------------------
# AST loading
# ----------------------------------------------------------------------------------------------

def clang_dump(path, cache_dir):
    src = open(path, 'rb').read()
    # the dump depends on headers too: hash every bxdecay0 header's content in
    hh = hashlib.sha256(src)
    hdir = os.path.join(REPO, 'bxdecay0')
    for h in sorted(os.listdir(hdir)):
        if h.endswith('.h'):
            hh.update(open(os.path.join(hdir, h), 'rb').read())
    key = hh.hexdigest()[:24]
    os.makedirs(cache_dir, exist_ok=True)
    cpath = os.path.join(cache_dir, os.path.basename(path) + '.' + key + '.json')
    if not os.path.exists(cpath):
        cmd = ['clang++', '-std=c++11', '-fsyntax-only', '-I' + REPO, '-I' + os.path.join(REPO, '_build'),
               '-Wno-everything',
               '-Xclang', '-ast-dump=json', '-Xclang', '-ast-dump-filter=bxdecay0::', path]
        r = subprocess.run(cmd, stdout=subprocess.PIPE, stderr=subprocess.PIPE)
        if r.returncode != 0:
            raise Unsupported('clang failed on %s: %s' % (path, r.stderr.decode()[:2000]))
        tmp = cpath + '.tmp%d' % os.getpid()
        open(tmp, 'wb').write(r.stdout)
        os.rename(tmp, cpath)
    txt = open(cpath).read()
    dec = json.JSONDecoder()
    i = 0
    objs = []
    n = len(txt)
    while i < n:
        while i < n and txt[i].isspace():
            i += 1
        if i >= n:
            break
        o, j = dec.raw_decode(txt, i)
        objs.append(o)
        i = j
    return objs


def inner(n):
    r = n.get('inner', [])
    if r and any((c.get('kind') or '').endswith('Comment') for c in r):
        r = [c for c in r if not (c.get('kind') or '').endswith('Comment')]
    return r


def qt(n):
    t = n.get('type')
    if not t:
        return ''
    return t.get('qualType', '')


def desugared(n):
    t = n.get('type') or {}
    return t.get('desugaredQualType', t.get('qualType', ''))


# ----------------------------------------------------------------------------------------------
# type mapping
# ----------------------------------------------------------------------------------------------

BASIC = {
    'double': 'double', 'float': 'float', 'int': 'int', 'unsigned int': 'unsigned int', 'bool': '_Bool',
    'char': 'char', 'long': 'long', 'unsigned long': 'unsigned long', 'void': 'void',
    'std::size_t': 'unsigned long', 'size_t': 'unsigned long', 'uint32_t': 'unsigned int',
    'unsigned char': 'unsigned char', 'long double': 'long double', 'unsigned short': 'unsigned short',
    'short': 'short', 'long long': 'long long', 'unsigned long long': 'unsigned long long',
    'std::vector::size_type': 'unsigned long', 'std::string::size_type': 'unsigned long',
    'std::vector<bxdecay0::particle>::size_type': 'unsigned long',
    'std::basic_string<char>::size_type': 'unsigned long', 'size_type': 'unsigned long',
    'std::__cxx11::basic_string<char>::size_type': 'unsigned long',
}

STRING_TYPES = ('std::string', 'std::basic_string<char>', 'std::__cxx11::basic_string<char>',
                'basic_string<char>', 'std::__cxx11::string', 'string')
OSTREAM_RE = re.compile(r'(ostream|ostringstream|basic_ios|stringstream|ofstream)')


def strip_cv(t):
    t = t.strip()
    changed = True
    while changed:
        changed = False
        for q in ('const ', 'volatile ', 'struct ', 'class ', 'enum '):
            if t.startswith(q):
                t = t[len(q):].strip()
                changed = True
        for q in (' const', ' volatile'):
            if t.endswith(q):
                t = t[:-len(q)].strip()
                changed = True
    return t


def split_top(s, sep=','):
    out = []
    depth = 0
    cur = ''
    for ch in s:
        if ch in '(<[':
            depth += 1
        elif ch in ')>]':
            depth -= 1
        if ch == sep and depth == 0:
            out.append(cur.strip())
            cur = ''
        else:
            cur += ch
    if cur.strip():
        out.append(cur.strip())
    return out


class Types:
    """maps C++ type spellings to C spellings; knows the record/enum names of namespace bxdecay0"""

    def __init__(self):
        self.records = {}   # simple name -> C struct name
        self.enums = set()
        self.typedefs = {}  # name -> underlying C++ spelling

    def is_ostream(self, t):
        return bool(OSTREAM_RE.search(t))

    def is_string(self, t):
        return strip_cv(t.replace('&', '').strip()) in STRING_TYPES

    def is_ref(self, t):
        t = t.strip()
        return t.endswith('&') and not t.endswith('&&')

    def c(self, t):
        """C type for a C++ type spelling (references become pointers)"""
        t = t.strip()
        if t.endswith('&&'):
            return self.c(t[:-2])
        if t.endswith('&'):
            return self.c(t[:-1]) + ' *'
        m = re.match(r'^(.*)\(\*\)\((.*)\)$', t)
        if m:
            raise Unsupported('bare function pointer type ' + t)
        if t.endswith('*'):
            return self.c(t[:-1]) + ' *'
        if t.endswith('*const'):
            return self.c(t[:-6]) + ' *'
        m = re.match(r'^(.*)\[(\d*)\]$', t)
        if m:
            raise Unsupported('array type in expression position ' + t)
        b = strip_cv(t)
        if b in BASIC:
            return BASIC[b]
        if b.startswith('bxdecay0::'):
            b = b[len('bxdecay0::'):]
        if b in STRING_TYPES:
            return 'bx_string'
        if b in ('i_random',):
            return 'bx_prng'
        m = re.match(r'^std::vector<(?:bxdecay0::)?particle(?:, std::allocator<(?:bxdecay0::)?particle>\s*)?>$', b)
        if m:
            return 'bx_vec_particle'
        if b == 'std::set<int>' or b.startswith('std::set<int,'):
            return 'bx_set_int'
        if b in self.typedefs:
            return self.c(self.typedefs[b])
        b2 = b.replace('::', '__')
        if b in self.records or b2 in self.records:
            return 'struct ' + b2
        if b in self.enums or b2 in self.enums:
            return 'int'
        if b in ('gsl_error_handler_t',):
            return 'void'
        if b in ('gsl_sf_result',):
            return 'bx_gsl_sf_result'
        if b in ('gsl_function', 'struct gsl_function_struct', 'gsl_function_struct'):
            return 'bx_gsl_function'
        raise Unsupported('type ' + t)

    def decl(self, t, name):
        """C declaration of a variable of C++ type t"""
        t = t.strip()
        b = strip_cv(t).replace('bxdecay0::', '')
        if b in self.typedefs:
            return self.decl(self.typedefs[b], name)
        m = re.match(r'^(.*?)((?:\[\d+\])+)$', t)
        if m:
            return '%s %s%s' % (self.c(m.group(1)), name, m.group(2))
        m = re.match(r'^(.*)\(\*\)\((.*)\)$', t)
        if m:
            ps = [self.c(p) for p in split_top(m.group(2))] if m.group(2).strip() else ['void']
            return '%s (*%s)(%s)' % (self.c(m.group(1)), name, ', '.join(ps))
        return '%s %s' % (self.c(t), name)


# ----------------------------------------------------------------------------------------------
# statement IR
# ----------------------------------------------------------------------------------------------

class S:
    """statement IR node: kind + fields"""

    def __init__(self, kind, **kw):
        self.kind = kind
        self.__dict__.update(kw)

    def __repr__(self):
        return 'S(%s)' % self.kind


LIBM = {'log': 'bx_log', 'sqrt': 'bx_sqrt', 'exp': 'bx_exp', 'cos': 'bx_cos', 'sin': 'bx_sin', 'tan': 'bx_tan',
        'acos': 'bx_acos', 'asin': 'bx_asin', 'atan': 'bx_atan', 'atan2': 'bx_atan2', 'pow': 'bx_pow',
        'fabs': 'bx_fabs', 'floor': 'bx_floor', 'ceil': 'bx_ceil', 'hypot': 'bx_hypot', 'log10': 'bx_log10',
        'isnan': 'bx_isnan', 'isnormal': 'bx_isnormal', 'isfinite': 'bx_isfinite', 'isinf': 'bx_isinf', 'round': 'bx_round', 'nearbyint': 'bx_nearbyint',
        'lround': 'bx_lround', 'cosh': 'bx_cosh', 'sinh': 'bx_sinh'}
GSLPOW = {'gsl_pow_2': 2, 'gsl_pow_3': 3, 'gsl_pow_4': 4, 'gsl_pow_5': 5, 'gsl_pow_6': 6, 'gsl_pow_7': 7,
          'gsl_pow_8': 8, 'gsl_pow_9': 9}
EXTERNAL_OK = {'gsl_sf_lngamma_complex_e', 'gsl_integration_qng', 'gsl_set_error_handler_off',
               'gsl_set_error_handler', 'gsl_sf_gamma', 'gsl_pow_int', 'gsl_strerror', 'gsl_sf_lngamma_e',
               'gsl_isnan', 'gsl_finite', 'abs', 'exit', 'abort'}
# functions of the porcelain layer that plumbing code calls only to build diagnostics
EXTERNAL_PURE = {'dbd_mode_from_legacy_modebb': 'int', 'is_trace': '_Bool'}

UFOPS = {'+': 'bx_add', '-': 'bx_sub', '*': 'bx_mul', '/': 'bx_div'}


class Opts:
    def __init__(self, uf=False, prefix='', hoist=False, fnprefix='', callmap=None, litmap=None):
        self.uf = uf                # uninterpreted double arithmetic
        self.prefix = prefix        # prefix for locals/params (segment variants)
        self.hoist = hoist
        self.fnprefix = fnprefix
        self.callmap = callmap or {}
        self.litmap = litmap        # callable(text)->C expr for floating literals (constant clustering)


class E:
    """expression IR: a tree we can print with options. kinds:
       lit(text,isfloat) var(id,name,deref) bin(op,a,b,isdouble) un(op,a,post,isdouble) call(fn,args,id) raw(text,subs)
       cast(ctype,a) member(a,name,arrow) index(a,i) cond(c,a,b) addr(a) deref(a) assign(op,a,b,isdouble) flit(text)"""
    __slots__ = ('k', 'a', 'b', 'c', 'op', 'name', 'args', 'extra', 'isd')

    def __init__(self, k, a=None, b=None, c=None, op=None, name=None, args=None, extra=None, isd=False):
        self.k = k
        self.a = a
        self.b = b
        self.c = c
        self.op = op
        self.name = name
        self.args = args
        self.extra = extra
        self.isd = isd


def P(e, o):
    """print expression e under options o"""
    k = e.k
    if k == 'ilit':
        return e.name
    if k == 'flit':
        if o.litmap:
            return o.litmap(e.name)
        return e.name
    if k == 'slit':
        return e.name
    if k == 'var':
        nm = e.name
        if e.extra in ('local', 'this'):
            nm = o.prefix + nm
        if e.isd:  # reference-typed: pointer in C
            return '(*%s)' % nm
        return nm
    if k == 'fn':
        return o.callmap.get(e.name, o.fnprefix + e.name if e.extra == 'bx' else e.name)
    if k == 'paren':
        return '(%s)' % P(e.a, o)
    if k == 'bin':
        if o.uf and e.isd and e.op == '*':
            # products are compared as SEQUENCES of factors with squares expanded in place: re-association of a product
            # (3.*r**2*a vs 3.*r*r*a, (p1*p2)**2 vs p1**2*p2**2) changes the result by rounding only -- "floating-point noise"
            # of C01/C02, like the literal clustering.  Factor order is kept (a factor may draw a deviate).
            fs = _factors(e, o)   # source order kept (factors may draw deviates): only association and (a*b)**2 are normalised
            t = fs[0]
            for x in fs[1:]:
                t = 'bx_mul(%s, %s)' % (t, x)
            return t
        if o.uf and e.isd and e.op in UFOPS:
            return '%s(%s, %s)' % (UFOPS[e.op], P(e.a, o), P(e.b, o))
        if getattr(o, 'abstract_nonlinear', False) and not o.uf and e.isd and e.op in ('*', '/'):
            # single-program queries that only need the linear facts: a product of two non-literal doubles and every
            # quotient is an uninterpreted function of its operands (any function: sound over-approximation; equal
            # operands still give equal results).  Products with a literal factor keep IEEE semantics.
            def islit(x):
                while x.k in ('paren', 'cast'):
                    x = x.a
                return x.k in ('flit', 'ilit') or (x.k == 'un' and x.op == '-' and islit(x.a))

            def isdraw0(x):
                while x.k == 'paren':
                    x = x.a
                return x.k == 'call' and x.a == 'bx_draw'
            if e.op == '/':
                return 'bx_divx(%s, %s)' % (P(e.a, o), P(e.b, o))
            if not (islit(e.a) or islit(e.b)) and not (getattr(o, 'scale_draw', False) and (isdraw0(e.a) != isdraw0(e.b))):
                return 'bx_mulx(%s, %s)' % (P(e.a, o), P(e.b, o))
        if getattr(o, 'scale_draw', False) and e.op == '*' and not o.uf:
            # deviate * x  (0 < deviate < 1): abstracted to ANY value between 0 and x -- a sound over-approximation of the
            # IEEE product (round-to-nearest is monotone), chosen because a symbolic 53x53-bit multiplier defeats the SAT
            # back end while the interval does not
            def isdraw(x):
                while x.k == 'paren':
                    x = x.a
                return x.k == 'call' and x.a == 'bx_draw'
            if isdraw(e.a) and not isdraw(e.b):
                return 'bx_scale(%s, %s)' % (P(e.a, o), P(e.b, o))
            if isdraw(e.b) and not isdraw(e.a):
                return 'bx_scale(%s, %s)' % (P(e.b, o), P(e.a, o))
        return '(%s %s %s)' % (P(e.a, o), e.op, P(e.b, o))
    if k == 'assign':
        if e.op == '=':
            return '%s = %s' % (P(e.a, o), P(e.b, o))
        bop = e.op[:-1]
        if o.uf and e.isd and bop in UFOPS:
            return '%s = %s(%s, %s)' % (P(e.a, o), UFOPS[bop], P(e.a, o), P(e.b, o))
        return '%s %s %s' % (P(e.a, o), e.op, P(e.b, o))
    if k == 'un':
        if e.extra == 'post':
            return '(%s%s)' % (P(e.a, o), e.op)
        if o.uf and e.op == '-':
            # -(a*b/c) == (-a)*b/c exactly (sign-symmetric rounding): the minus goes to the leftmost factor, so that
            # "-b1*b2" reads the same whether the source language parses it as -(b1*b2) or as (-b1)*b2
            x = e.a
            while x.k == 'paren':
                x = x.a
            if x.k == 'bin' and x.op in ('*', '/') and x.isd:
                return P(_negate(x), o)
        return '(%s%s)' % (e.op, P(e.a, o))
    if k == 'call':
        fn = P(e.a, o) if isinstance(e.a, E) else e.a
        if o.uf and e.extra and e.extra.get('powint'):
            if e.extra['powint'] == 2:
                # x**2, gsl_pow_2(x) and x*x are the same product (one rounding): one canonical term
                fs = _factors(e, o)
                t = fs[0]
                for x in fs[1:]:
                    t = 'bx_mul(%s, %s)' % (t, x)
                return t
            return 'bx_uf_powi(%s, %d)' % (P(e.args[0], o), e.extra['powint'])
        return '%s(%s)' % (fn, ', '.join(P(x, o) for x in e.args))
    if k == 'cast':
        return '((%s)%s)' % (e.name, P(e.a, o))
    if k == 'member':
        base = e.a
        if e.extra:  # arrow
            base = mk_deref(base)
        if base.k == 'deref':
            inner_ = base.a
            txt = P(inner_, o)
            if inner_.k not in ('var', 'call', 'paren', 'member', 'index', 'cast'):
                txt = '(' + txt + ')'
            return '%s->%s' % (txt, e.name)
        if base.k == 'var' and base.isd:
            nm = base.name
            if base.extra == 'local':
                nm = o.prefix + nm
            return '%s->%s' % (nm, e.name)
        return '%s.%s' % (P(base, o), e.name)
    if k == 'index':
        return '%s[%s]' % (P(e.a, o), P(e.b, o))
    if k == 'cond':
        return '(%s ? %s : %s)' % (P(e.a, o), P(e.b, o), P(e.c, o))
    if k == 'addr':
        a = e.a
        if a.k == 'deref':
            return P(a.a, o)
        if a.k == 'var' and a.isd:
            nm = a.name
            if a.extra == 'local':
                nm = o.prefix + nm
            return nm
        if a.k == 'paren':
            return P(mk_addr(a.a), o)
        return '&%s' % P(a, o)
    if k == 'deref':
        if e.a.k == 'addr':
            return P(e.a.a, o)
        return '(*%s)' % P(e.a, o)
    if k == 'init':
        return '{%s}' % ', '.join(P(x, o) for x in e.args)
    if k == 'comma':
        return '(%s, %s)' % (P(e.a, o), P(e.b, o))
    if k == 'complit':
        return '(%s){%s}' % (e.name, ', '.join(P(x, o) for x in e.args))
    raise Unsupported('print ' + k)


def mk_deref(e):
    while e.k == 'paren' and e.a.k in ('addr', 'var'):
        e = e.a
    if e.k == 'addr':
        return e.a
    return E('deref', a=e)


def mk_addr(e):
    while e.k == 'paren' and e.a.k in ('deref', 'var', 'member', 'index'):
        e = e.a
    if e.k == 'deref':
        return e.a
    return E('addr', a=e)


def _negate(e):
    while e.k == 'paren':
        e = e.a
    if e.k == 'bin' and e.op in ('*', '/') and e.isd:
        return E('bin', op=e.op, a=_negate(e.a), b=e.b, isd=True)
    if e.k == 'un' and e.op == '-' and e.extra != 'post':
        return e.a
    if e.k == 'flit':
        return E('flit', name=e.name[1:] if e.name.startswith('-') else '-' + e.name)
    return E('un', op='-', a=E('paren', a=e), extra='pre', isd=getattr(e, 'isd', None))


def _factors(e, o):
    while e.k == 'paren':
        e = e.a
    if e.k == 'bin' and e.op == '*' and e.isd:
        return _factors(e.a, o) + _factors(e.b, o)
    if e.k == 'call' and isinstance(e.extra, dict) and e.extra.get('powint') == 2:
        out = []
        for x in _factors(e.args[0], o):          # (a*b)**2 -> a, a, b, b
            out += [x, x]
        return out
    return [P(e, o)]


def _fkey(txt):
    """ordering key of a factor that is the same on both sides of a relational query"""
    k = re.sub(r'\b[xr]_', '', txt)
    k = re.sub(r'\b(decay0_|ref_)', '', k)
    k = k.replace('(*', '').replace(')', '').replace('(', '').replace(' ', '').lower().rstrip('_')
    k = re.sub(r'_\b', '', k)
    return (k, txt)


def _simple(e):
    while e.k == 'paren':
        e = e.a
    return e.k in ('var', 'flit', 'ilit', 'member', 'deref', 'index')


def walk_expr(e, f):
    if e is None or not isinstance(e, E):
        return
    f(e)
    for x in (e.a, e.b, e.c):
        if isinstance(x, E):
            walk_expr(x, f)
    for x in (e.args or []):
        walk_expr(x, f)


# ----------------------------------------------------------------------------------------------
# translation unit
# ----------------------------------------------------------------------------------------------

class Func:
    def __init__(self):
        self.name = None       # C name
        self.cxxname = None
        self.ret = 'void'
        self.params = []       # (ctype-decl-string builder, name, cxxtype, isref)
        self.body = None       # S block
        self.locals = []       # (cxxtype, name, id)
        self.labels = []
        self.calls = set()     # C names of bxdecay0 callees
        self.ext_calls = set()
        self.throws = False
        self.statics = []      # (name, cxxtype, init E or None, const?)
        self.static_writes = []
        self.file = None
        self.dropped = 0       # number of dropped diagnostic statements
        self.writes = []       # (target description) for the C07 frame scan
        self.is_method = None
        self.draws = 0
        self.src_range = None


class TU:
    def __init__(self, path, cache_dir, types=None):
        self.path = path
        self.text = open(path, 'rb').read()
        self.objs = clang_dump(path, cache_dir)
        self.types = types or Types()
        self.decls = {}      # id -> decl node (functions, vars, fields, enum constants, records)
        self.cname = {}      # id -> C name
        self.enumvals = {}   # id -> int
        self.records = {}    # C name -> list of (cxxtype, fieldname)
        self.record_of = {}  # record id -> C name
        self.funcs = {}      # C name -> Func
        self.fdecl_params = {}  # function id -> list of ParmVarDecl nodes
        self.globals = {}    # id -> (cname, cxxtype, init node)
        self.parent_rec = {}
        self.enum_defs = []  # (cname, value)
        self.rec_trivial_ctor = {}
        self._collect()

    # ---- collection of declarations -------------------------------------------------------
    def _collect(self):
        self._names_seen = {}
        for o in self.objs:
            self._collect_decl(o, None)

    def _collect_decl(self, n, rec):
        k = n.get('kind')
        if k == 'NamespaceDecl':
            for c in inner(n):
                self._collect_decl(c, rec)
            return
        if k in ('CXXRecordDecl',):
            if not n.get('completeDefinition') and not inner(n):
                if n.get('name'):
                    self.types.records.setdefault(n['name'], n['name'])
                return
            name = n.get('name')
            if not name:
                return
            cn = (rec + '__' + name) if rec else name
            self.types.records[cn] = cn
            self.record_of[n['id']] = cn
            fields = []
            bases = [strip_cv(b['type']['qualType']).replace('bxdecay0::', '') for b in n.get('bases', [])]
            for c in inner(n):
                ck = c.get('kind')
                if ck == 'FieldDecl':
                    fields.append((qt(c), c['name'], c))
                    self.decls[c['id']] = c
                    self.cname[c['id']] = c['name']
                elif ck in ('CXXMethodDecl', 'CXXConstructorDecl', 'CXXDestructorDecl'):
                    self._reg_func(c, cn)
                elif ck == 'EnumDecl':
                    self._collect_enum(c, cn)
                elif ck == 'CXXRecordDecl' and not c.get('isImplicit'):
                    self._collect_decl(c, cn)
                elif ck == 'VarDecl':  # static data member
                    self.decls[c['id']] = c
                    self.cname[c['id']] = cn + '__' + c['name']
                    self.globals[c['id']] = (cn + '__' + c['name'], qt(c), c)
                elif ck == 'TypedefDecl' or ck == 'TypeAliasDecl':
                    self.types.typedefs[c['name']] = qt(c)
            if n.get('completeDefinition') or fields:
                self.records[cn] = (bases, fields)
                dd = n.get('definitionData', {})
                self.rec_trivial_ctor[cn] = bool(dd.get('defaultCtor', {}).get('trivial'))
            return
        if k == 'EnumDecl':
            self._collect_enum(n, rec)
            return
        if k in ('FunctionDecl', 'CXXMethodDecl', 'CXXConstructorDecl', 'CXXDestructorDecl'):
            # out-of-line method definitions carry parentDeclContextId
            self._reg_func(n, rec)
            return
        if k == 'VarDecl':
            self.decls[n['id']] = n
            r = self.record_of.get(n.get('parentDeclContextId')) if rec is None else rec
            cn = (r + '__' + n['name']) if r else n['name']
            self.cname[n['id']] = cn
            self.globals[n['id']] = (cn, qt(n), n)
            return
        if k in ('TypedefDecl', 'TypeAliasDecl'):
            self.types.typedefs[n['name']] = qt(n)
            return

    def _collect_enum(self, n, rec):
        name = n.get('name')
        if name:
            cn = (rec + '__' + name) if rec else name
            self.types.enums.add(cn)
            self.types.enums.add(name)
        val = -1
        for c in inner(n):
            if c.get('kind') != 'EnumConstantDecl':
                continue
            v = self._enum_value(c)
            if v is None:
                val += 1
            else:
                val = v
            self.enumvals[c['id']] = val
            self.decls[c['id']] = c
            cn = (rec + '__' + c['name']) if rec else c['name']
            self.cname[c['id']] = cn
            self.enum_defs.append((cn, val))

    def _enum_value(self, c):
        for x in inner(c):
            v = self._const_eval(x)
            return v
        return None

    def _const_eval(self, x):
        k = x.get('kind')
        if k == 'ConstantExpr':
            if 'value' in x:
                return int(x['value'])
            return self._const_eval(inner(x)[0])
        if k == 'IntegerLiteral':
            return int(x['value'])
        if k in ('ImplicitCastExpr', 'ParenExpr'):
            return self._const_eval(inner(x)[0])
        if k == 'DeclRefExpr':
            return self.enumvals[x['referencedDecl']['id']]
        if k == 'BinaryOperator':
            a = self._const_eval(inner(x)[0])
            b = self._const_eval(inner(x)[1])
            return {'<<': a << b, '|': a | b, '+': a + b, '-': a - b, '*': a * b}[x['opcode']]
        if k == 'UnaryOperator' and x['opcode'] == '-':
            return -self._const_eval(inner(x)[0])
        raise Unsupported('enum initialiser ' + k)

    def _reg_func(self, n, rec):
        self.decls[n['id']] = n
        name = n.get('name')
        if rec is None and n.get('parentDeclContextId'):
            rec = self.record_of.get(n['parentDeclContextId'])
        if rec is None and n.get('previousDecl') and n['previousDecl'] in self.parent_rec:
            rec = self.parent_rec[n['previousDecl']]
        self.parent_rec[n['id']] = rec
        k = n.get('kind')
        if k == 'CXXConstructorDecl':
            base = rec + '__ctor'
        elif k == 'CXXDestructorDecl':
            base = rec + '__dtor'
        else:
            nm = name
            if nm.startswith('operator'):
                op = nm[len('operator'):]
                nm = 'operator_' + {'*': 'mul', '()': 'call', '==': 'eq', '=': 'assign', '+': 'add', '-': 'sub',
                                    '<<': 'shl', '[]': 'index', '!=': 'ne', '<': 'lt'}.get(op, 'x')
            base = (rec + '__' + nm) if rec else nm
        params = [c for c in inner(n) if c.get('kind') == 'ParmVarDecl']
        self.fdecl_params[n['id']] = params
        # overloads: distinguish by parameter type signature
        sig = qt(n)
        key = (base,)
        prev = self._names_seen.setdefault(base, {})
        if sig not in prev:
            prev[sig] = base if not prev else '%s__%d' % (base, len(prev))
        self.cname[n['id']] = prev[sig]

    # ---- rendering of function definitions ------------------------------------------------
    def in_main_file(self, n):
        loc = n.get('loc', {})
        # clang prints 'file' only when it changes; function definitions of the main file are recognised
        # through the presence of a body and absence of an includedFrom marker
        if 'includedFrom' in loc:
            return False
        rb = n.get('range', {}).get('begin', {})
        if 'includedFrom' in rb:
            return False
        return True

    def function_defs(self):
        out = []

        def rec(n):
            k = n.get('kind')
            if k == 'NamespaceDecl':
                for c in inner(n):
                    rec(c)
            elif k in ('FunctionDecl', 'CXXMethodDecl', 'CXXConstructorDecl', 'CXXDestructorDecl'):
                if any(c.get('kind') == 'CompoundStmt' for c in inner(n)) and not n.get('isImplicit'):
                    out.append(n)
            elif k == 'CXXRecordDecl':
                for c in inner(n):
                    rec(c)
        for o in self.objs:
            rec(o)
        return out

    def render_function(self, n):
        return FuncRenderer(self, n).run()

    def synth_ctors(self):
        """implicit default constructors of records with default member initialisers"""
        out = []
        for cn, (bases, fields) in self.records.items():
            if self.rec_trivial_ctor.get(cn, True):
                continue
            user = [d for did, d in self.decls.items() if d.get('kind') == 'CXXConstructorDecl'
                    and self.parent_rec.get(did) == cn and not d.get('isImplicit') and not self.fdecl_params.get(did)
                    and not d.get('explicitlyDefaulted')]
            if user:
                continue
            if not any(node is not None and node.get('hasInClassInitializer') for (t, nm, node) in fields):
                continue
            f = Func()
            f.name = cn + '__implicit_ctor'
            f.cxxname = cn
            f.is_method = cn
            f.ret = 'void'
            f.params = [('struct %s *this_' % cn, 'this_', cn + ' &', True)]
            r = FuncRenderer(self, {'id': None, 'name': cn})
            r.f = f
            items = []
            for b in bases:
                if not self.rec_trivial_ctor.get(b, True):
                    raise Unsupported('implicit constructor with non-trivial base')
            for (t, nm, node) in fields:
                if node is not None and node.get('hasInClassInitializer'):
                    x = [c for c in inner(node) if c.get('kind')][0]
                    tgt = E('member', a=E('deref', a=E('var', name='this_', extra='this')), name=nm, extra=False)
                    items.append(S('expr', e=E('assign', op='=', a=tgt, b=r.expr(x))))
            f.body = S('block', items=items, synthetic=False)
            f.file = os.path.basename(self.path)
            out.append(f)
        return out


class FuncRenderer:
    def __init__(self, tu, node):
        self.tu = tu
        self.T = tu.types
        self.node = node
        self.f = Func()
        self.labelname = {}
        self.localids = {}
        self.dropped_vars = set()
        self.tmpn = 0
        self.pre = []
        self.trace_vars = set()

    # ---- helpers ---------------------------------------------------------------------------
    def src(self, n):
        r = n.get('range', {})
        b = r.get('begin', {})
        e = r.get('end', {})
        if 'offset' in b and 'offset' in e and 'spellingLoc' not in b:
            return self.tu.text[b['offset']: e['offset'] + e.get('tokLen', 0)].decode('utf8', 'replace')
        return None

    def run(self):
        n = self.node
        f = self.f
        tu = self.tu
        f.cxxname = n['name']
        f.name = tu.cname[n['id']]
        rec = tu.parent_rec.get(n['id'])
        f.is_method = rec
        k = n['kind']
        fq = qt(n)
        ret = fq[:fq.index('(')].strip()
        self.retref = False
        if k in ('CXXConstructorDecl', 'CXXDestructorDecl'):
            f.ret = 'void'
        else:
            if self.T.is_ref(ret):
                self.retref = True
            f.ret = self.T.c(ret)
        self.is_const_method = fq.rstrip().endswith('const')
        if rec and n.get('storageClass') != 'static':
            f.params.append(('struct %s *this_' % rec, 'this_', rec + ' &', True))
        for c in inner(n):
            if c.get('kind') == 'ParmVarDecl':
                nm = c.get('name') or ('unnamed%d' % len(f.params))
                t = qt(c)
                self.localids[c['id']] = (nm, t, 'param')
                f.params.append((None, nm, t, self.T.is_ref(t)))
        self._scan_labels(n)
        body = [c for c in inner(n) if c.get('kind') == 'CompoundStmt'][0]
        inits = []
        if k == 'CXXConstructorDecl':
            for c in inner(n):
                if c.get('kind') == 'CXXCtorInitializer':
                    inits.append(self.ctor_init(c, rec))
        blk = self.stmt(body)
        if inits:
            blk.items = inits + blk.items
        f.body = blk
        f.file = os.path.basename(tu.path)
        return f

    def _scan_labels(self, n):
        if n.get('kind') == 'LabelStmt':
            self.labelname[n['declId']] = n['name']
            self.f.labels.append(n['name'])
        for c in inner(n):
            self._scan_labels(c)

    def ctor_init(self, c, rec):
        ai = c.get('anyInit')
        ch = inner(c)
        if ai is not None:
            ft = ai.get('type', {}).get('qualType', '')
            target = E('member', a=E('var', name='this_', extra='this'), name=ai['name'], extra=True)
            x = ch[0]
            if x.get('kind') == 'CXXConstructExpr':
                if self.T.is_string(ft) and not inner(x):
                    return S('expr', e=E('call', a='bx_string_clear', args=[mk_addr(target)]))
                if not inner(x):
                    tb = strip_cv(ft).replace('bxdecay0::', '')
                    if tb.startswith('std::set<int'):
                        return S('expr', e=E('call', a='bx_set_int_clear', args=[mk_addr(target)]))
                    if tb.startswith('std::vector<') or tb.startswith('std::ofstream') or 'ofstream' in tb:
                        return S('empty', why='default-constructed member %s' % ai['name'])
                raise Unsupported('member initialiser for %s of type %s' % (ai['name'], ft))
            if x.get('kind') == 'CXXDefaultInitExpr':
                raise Unsupported('default member initialiser for ' + ai['name'])
            return S('expr', e=E('assign', op='=', a=target, b=self.expr(x)))
        bi = c.get('baseInit')
        if bi is not None:
            bname = strip_cv(bi['qualType']).replace('bxdecay0::', '')
            x = ch[0]
            if x.get('kind') != 'CXXConstructExpr' or inner(x):
                raise Unsupported('base initialiser shape')
            ctor_t = x.get('ctorType', {}).get('qualType', '')
            for did, d in self.tu.decls.items():
                if d.get('kind') == 'CXXConstructorDecl' and self.tu.parent_rec.get(did) == bname and qt(d) == ctor_t:
                    if d.get('isImplicit'):
                        raise Unsupported('implicit base constructor ' + bname)
                    cn = self.tu.cname[did]
                    self.f.calls.add(cn)
                    base = E('member', a=E('var', name='this_', extra='this'), name='bx_base_' + bname, extra=True)
                    return S('expr', e=E('call', a=E('fn', name=cn, extra='bx'), args=[mk_addr(base)]))
            raise Unsupported('base constructor of %s not found' % bname)
        raise Unsupported('constructor initialiser shape')

    def fresh(self, base='bx_tmp'):
        self.tmpn += 1
        return '%s%d' % (base, self.tmpn)

    # ---- statements ------------------------------------------------------------------------
    def stmt(self, n):
        k = n.get('kind')
        m = getattr(self, 's_' + k, None)
        if m is None:
            # expression statement
            if k and (k.endswith('Expr') or k.endswith('Operator') or k == 'ExprWithCleanups'):
                return self.expr_stmt(n)
            raise Unsupported('statement kind %s' % k)
        return m(n)

    def wrap_pre(self, st, save):
        pre = self.pre
        self.pre = save
        if not pre:
            return st
        return S('block', items=pre + [st], synthetic=True)

    def expr_stmt(self, n):
        if self.is_diag(n):
            self.f.dropped += 1
            return S('empty', why='diagnostic output dropped')
        save = self.pre
        self.pre = []
        e = self.expr(n)
        st = S('expr', e=e)
        return self.wrap_pre(st, save)

    def is_diag(self, n):
        """statement-level expression that only produces diagnostic output"""
        k = n.get('kind')
        if k in ('ExprWithCleanups', 'ImplicitCastExpr', 'CXXBindTemporaryExpr', 'MaterializeTemporaryExpr'):
            return self.is_diag(inner(n)[0])
        t = qt(n)
        if self.T.is_ostream(t):
            self.check_pure(n)
            return True
        if k in ('CXXMemberCallExpr', 'CallExpr'):
            args = inner(n)[1:]
            if any(self.T.is_ostream(qt(a)) for a in args):
                self.check_pure(n)
                return True
            callee = inner(n)[0]
            if callee.get('kind') == 'MemberExpr' and self.T.is_ostream(qt(inner(callee)[0])):
                self.check_pure(n)
                return True
        return False

    def check_pure(self, n):
        """a dropped statement must not assign, increment or draw"""
        k = n.get('kind')
        if k == 'BinaryOperator' and n.get('opcode') in ('=',):
            raise Unsupported('assignment inside a diagnostic statement')
        if k == 'CompoundAssignOperator':
            raise Unsupported('assignment inside a diagnostic statement')
        if k == 'UnaryOperator' and n.get('opcode') in ('++', '--'):
            raise Unsupported('increment inside a diagnostic statement')
        if k == 'CXXOperatorCallExpr':
            c0 = inner(n)[0]
            d = self._callee_decl(c0)
            if d and d.get('name') == 'operator()':
                raise Unsupported('deviate drawn inside a diagnostic statement')
        for c in inner(n):
            self.check_pure(c)

    def s_CompoundStmt(self, n):
        items = []
        for c in inner(n):
            s = self.stmt(c)
            if s is not None:
                items.append(s)
        return S('block', items=items, synthetic=False)

    def s_NullStmt(self, n):
        return S('empty', why='')

    def s_DeclStmt(self, n):
        out = []
        for c in inner(n):
            if c.get('kind') != 'VarDecl':
                if c.get('kind') in ('TypedefDecl', 'TypeAliasDecl'):
                    self.T.typedefs[c['name']] = qt(c)
                    continue
                if c.get('kind') in ('UsingDirectiveDecl', 'UsingDecl'):
                    continue
                raise Unsupported('declaration kind ' + c.get('kind'))
            out.append(self.vardecl(c))
        out = [x for x in out if x is not None]
        if len(out) == 1:
            return out[0]
        return S('multi', items=out)

    def uniq(self, name):
        used = {p[1] for p in self.f.params} | {l[1] for l in self.f.locals}
        if name not in used:
            return name
        k = 2
        while '%s__%d' % (name, k) in used:
            k += 1
        return '%s__%d' % (name, k)

    def vardecl(self, c):
        name = self.uniq(c['name'])
        t = qt(c)
        tb = strip_cv(t.replace('&', ''))
        if self.T.is_ostream(t) or (self.T.is_string(t) and not self.T.is_ref(t)):
            # local strings/streams exist only to build messages
            for x in inner(c):
                self.check_pure(x)
            self.dropped_vars.add(c['id'])
            self.f.dropped += 1
            return S('empty', why='message buffer %s dropped' % name)
        is_static = c.get('storageClass') == 'static'
        ini = [x for x in inner(c) if x.get('kind')]
        if is_static and tb in ('bool', '_Bool') and ini and self._is_trace_init(ini[0]):
            self.localids[c['id']] = (name, 'bool', 'local')
            self.trace_vars.add(c['id'])
            self.f.locals.append(('bool', name, c['id']))
            return S('decl', cxxtype='const bool', name=name, init=E('ilit', name='0'), static=False, id=c['id'])
        self.localids[c['id']] = (name, t, 'local')
        save = self.pre
        self.pre = []
        init = None
        ctor = None
        if ini:
            x = ini[0]
            if self.T.is_ref(t):
                # local reference: pointer to the referenced object
                init = mk_addr(self.expr(x))
            elif x.get('kind') == 'CXXConstructExpr' or (x.get('kind') == 'ExprWithCleanups' and inner(x)[0].get('kind') == 'CXXConstructExpr'):
                if x.get('kind') == 'ExprWithCleanups':
                    x = inner(x)[0]
                init, ctor = self.construct(x, name)
            else:
                init = self.expr(x)
        if is_static:
            self.f.statics.append((name, t, init, 'const' in t))
        self.f.locals.append((t, name, c['id']))
        st = S('decl', cxxtype=t, name=name, init=init, static=is_static, id=c['id'], ctor=ctor)
        pre = self.pre
        self.pre = save
        if pre:
            return S('multi', items=pre + [st])
        return st

    def _is_trace_init(self, x):
        found = []

        def rec(n):
            if n.get('kind') == 'DeclRefExpr' and n.get('referencedDecl', {}).get('name') == 'is_trace':
                found.append(1)
            for c in inner(n):
                rec(c)
        rec(x)
        return bool(found)

    def construct(self, x, varname):
        """CXXConstructExpr initialising variable varname -> (init expr or None, ctor call stmt or None)"""
        t = strip_cv(qt(x)).replace('bxdecay0::', '')
        args = [a for a in inner(x)]
        ctor_t = x.get('ctorType', {}).get('qualType', '')
        if len(args) == 1 and ('const ' + 'bxdecay0::' + t + ' &' in ctor_t or (t + ' &&') in ctor_t or ('const ' + t + ' &') in ctor_t):
            return self.expr(args[0]), None  # copy/move construction = struct copy
        if t in self.tu.types.records:
            # user-provided or implicit default constructor
            cn = None
            for did, d in self.tu.decls.items():
                if d.get('kind') == 'CXXConstructorDecl' and self.tu.parent_rec.get(did) == t and qt(d) == ctor_t:
                    cn = self.tu.cname[did]
                    implicit = d.get('isImplicit')
                    break
            if cn is None:
                raise Unsupported('constructor of %s not found' % t)
            if implicit and self.tu.rec_trivial_ctor.get(t):
                return None, None
            if implicit:
                cn = t + '__implicit_ctor'
            if args:
                raise Unsupported('constructor with arguments for ' + t)
            self.f.calls.add(cn)
            call = E('call', a=E('fn', name=cn, extra='bx'), args=[mk_addr(E('var', name=varname, extra='local'))])
            return None, call
        if t in ('gsl_sf_result', 'gsl_function', 'gsl_function_struct') and not args:
            return None, None
        if t.startswith('std::set<int') and not args:
            return None, E('call', a='bx_set_int_clear', args=[mk_addr(E('var', name=varname, extra='local'))])
        raise Unsupported('construction of ' + t)

    def s_IfStmt(self, n):
        ch = inner(n)
        if n.get('hasVar') or n.get('hasInit'):
            raise Unsupported('if with init/var')
        save = self.pre
        self.pre = []
        cond = self.expr(ch[0])
        th = self.stmt(ch[1])
        el = self.stmt(ch[2]) if len(ch) > 2 else None
        return self.wrap_pre(S('if', cond=cond, then=th, els=el), save)

    def s_GotoStmt(self, n):
        return S('goto', label=self.labelname[n['targetLabelDeclId']])

    def s_LabelStmt(self, n):
        sub = self.stmt(inner(n)[0])
        return S('label', name=n['name'], stmt=sub)

    def s_ReturnStmt(self, n):
        ch = inner(n)
        if not ch:
            return S('return', e=None)
        save = self.pre
        self.pre = []
        e = self.expr(ch[0])
        if self.retref:
            e = mk_addr(e)
        return self.wrap_pre(S('return', e=e), save)

    def s_ForStmt(self, n):
        ch = inner(n)
        if len(ch) != 5:
            raise Unsupported('for shape')
        init = self.stmt(ch[0]) if ch[0] else None
        if ch[1]:
            raise Unsupported('for condition variable')
        save = self.pre
        self.pre = []
        cond = self.expr(ch[2]) if ch[2] else None
        inc = self.expr(ch[3]) if ch[3] else None
        if self.pre:
            raise Unsupported('temporaries in for header')
        self.pre = save
        body = self.stmt(ch[4])
        return S('for', init=init, cond=cond, inc=inc, body=body)

    def s_WhileStmt(self, n):
        ch = [c for c in inner(n)]
        if len(ch) != 2:
            raise Unsupported('while shape')
        save = self.pre
        self.pre = []
        cond = self.expr(ch[0])
        if self.pre:
            raise Unsupported('temporaries in while header')
        self.pre = save
        return S('while', cond=cond, body=self.stmt(ch[1]))

    def s_DoStmt(self, n):
        ch = inner(n)
        body = self.stmt(ch[0])
        save = self.pre
        self.pre = []
        cond = self.expr(ch[1])
        if self.pre:
            raise Unsupported('temporaries in do-while condition')
        self.pre = save
        return S('do', cond=cond, body=body)

    def s_SwitchStmt(self, n):
        ch = inner(n)
        return S('switch', cond=self.expr(ch[0]), body=self.stmt(ch[1]))

    def s_CaseStmt(self, n):
        ch = inner(n)
        return S('case', value=self.expr(ch[0]), stmt=self.stmt(ch[-1]))

    def s_DefaultStmt(self, n):
        return S('default', stmt=self.stmt(inner(n)[0]))

    def s_BreakStmt(self, n):
        return S('break')

    def s_ContinueStmt(self, n):
        return S('continue')

    def s_CXXThrowExpr(self, n):
        for c in inner(n):
            self.check_pure(c)
        self.f.throws = True
        return S('throw')

    def s_ExprWithCleanups(self, n):
        c = inner(n)[0]
        if c.get('kind') == 'CXXThrowExpr':
            return self.s_CXXThrowExpr(c)
        return self.expr_stmt(n)

    def s_CXXForRangeStmt(self, n):
        ch = inner(n)
        # [init?, range decl, begin decl, end decl, cond, inc, loopvar decl, body]
        rng = None
        loopvar = None
        for c in ch:
            if c.get('kind') == 'DeclStmt':
                v = inner(c)[0]
                if v.get('name') == '__range1' or v.get('name', '').startswith('__range'):
                    rng = v
                elif not v.get('name', '').startswith('__'):
                    loopvar = v
        body = ch[-1]
        if rng is None or loopvar is None:
            raise Unsupported('range-for shape')
        cont = self.expr(inner(rng)[0])
        ct = strip_cv(qt(inner(rng)[0]).replace('&', ''))
        idx = self.fresh('bx_i')
        lv_name = self.uniq(loopvar['name'])
        lv_t = qt(loopvar)
        self.localids[loopvar['id']] = (lv_name, lv_t, 'local')
        m = re.match(r'^(.*)\[(\d+)\]$', ct)
        if m:
            n_e = E('ilit', name=m.group(2))
            elem = E('index', a=cont, b=E('var', name=idx, extra='local'))
            elem_t = m.group(1)
        elif 'vector' in ct and 'particle' in ct:
            n_e = E('call', a='bx_vec_particle_size', args=[mk_addr(cont)])
            elem = mk_deref(E('call', a='bx_vec_particle_at', args=[mk_addr(cont), E('var', name=idx, extra='local')]))
            elem_t = 'bxdecay0::particle'
        else:
            raise Unsupported('range-for over ' + ct)
        if self.T.is_ref(lv_t):
            lv_init = mk_addr(elem)
        else:
            lv_init = elem
        self.f.locals.append(('int', idx, None))
        self.f.locals.append((lv_t, lv_name, loopvar['id']))
        b = self.stmt(body)
        decl = S('decl', cxxtype=lv_t, name=lv_name, init=lv_init, static=False, id=loopvar['id'], ctor=None)
        items = [decl] + (b.items if b.kind == 'block' else [b])
        return S('for', init=S('decl', cxxtype='int', name=idx, init=E('ilit', name='0'), static=False, id=None, ctor=None),
                 cond=E('bin', op='<', a=E('cast', name='unsigned long', a=E('var', name=idx, extra='local')), b=n_e),
                 inc=E('un', op='++', a=E('var', name=idx, extra='local'), extra='post'),
                 body=S('block', items=items, synthetic=False), rangefor=True)

    # ---- expressions -----------------------------------------------------------------------
    def expr(self, n):
        k = n.get('kind')
        m = getattr(self, 'e_' + k, None)
        if m is None:
            raise Unsupported('expression kind %s' % k)
        return m(n)

    def isdouble(self, n):
        return strip_cv(desugared(n)) in ('double', 'float')

    def e_ParenExpr(self, n):
        return E('paren', a=self.expr(inner(n)[0]))

    def e_ConstantExpr(self, n):
        return self.expr(inner(n)[0])

    def e_ExprWithCleanups(self, n):
        return self.expr(inner(n)[0])

    def e_MaterializeTemporaryExpr(self, n):
        c = inner(n)[0]
        e = self.expr(c)
        t = qt(n)
        tb = strip_cv(t).replace('bxdecay0::', '')
        # a class-type temporary that will be bound to a reference needs an object: hoist
        if e.k in ('call',) and (tb in self.T.records or self.T.is_string(t)):
            tmp = self.fresh()
            self.f.locals.append((t, tmp, None))
            self.pre.append(S('decl', cxxtype=strip_cv(t), name=tmp, init=e, static=False, id=None, ctor=None))
            return E('var', name=tmp, extra='local')
        if e.k in ('flit', 'ilit', 'bin', 'un', 'cast', 'call', 'paren', 'cond'):
            # scalar temporary bound to const T&
            tmp = self.fresh()
            self.f.locals.append((t, tmp, None))
            self.pre.append(S('decl', cxxtype=strip_cv(t), name=tmp, init=e, static=False, id=None, ctor=None))
            return E('var', name=tmp, extra='local')
        return e

    def e_CXXBindTemporaryExpr(self, n):
        return self.expr(inner(n)[0])

    def e_FloatingLiteral(self, n):
        txt = self.src(n)
        val = n['value']
        if txt is not None:
            try:
                t2 = txt.rstrip('fFlL')
                if float(t2) == float(val):
                    if not re.search(r'[.eE]', t2):
                        t2 += '.0'
                    return E('flit', name=t2)
            except ValueError:
                pass
        v = repr(float(val))
        if v in ('inf', 'nan', '-inf'):
            raise Unsupported('non finite literal')
        return E('flit', name=v)

    def e_IntegerLiteral(self, n):
        v = n['value']
        t = strip_cv(qt(n))
        suf = {'unsigned int': 'U', 'long': 'L', 'unsigned long': 'UL'}.get(t, '')
        return E('ilit', name=v + suf)

    def e_CXXBoolLiteralExpr(self, n):
        return E('ilit', name='1' if n['value'] else '0')

    def e_CharacterLiteral(self, n):
        return E('ilit', name=str(n['value']))

    def e_StringLiteral(self, n):
        return E('slit', name=n['value'])

    def e_CXXNullPtrLiteralExpr(self, n):
        return E('ilit', name='((void *)0)')

    def e_GNUNullExpr(self, n):
        return E('ilit', name='((void *)0)')

    def e_CXXThisExpr(self, n):
        return E('var', name='this_', extra='this')

    def e_DeclRefExpr(self, n):
        rd = n['referencedDecl']
        k = rd['kind']
        did = rd['id']
        if did in self.dropped_vars:
            raise Unsupported('use of dropped diagnostic variable ' + rd.get('name', '?'))
        if k in ('ParmVarDecl', 'VarDecl'):
            if did in self.localids:
                nm, t, kind = self.localids[did]
                return E('var', name=nm, extra='local', isd=self.T.is_ref(t))
            if did in self.tu.globals:
                cn, t, node = self.tu.globals[did]
                self.f.ext_calls.add('global:' + cn)
                return E('var', name=cn, extra='global', isd=self.T.is_ref(t))
            if rd.get('name') == 'npos':
                return E('ilit', name='((unsigned long)-1)')
            # a variable of an enclosing scope we did not see (should not happen)
            raise Unsupported('unknown variable ' + rd.get('name', '?'))
        if k == 'EnumConstantDecl':
            if did in self.tu.enumvals:
                return E('ilit', name='%d /*%s*/' % (self.tu.enumvals[did], rd['name']))
            if rd['name'].startswith('GSL_'):
                return E('ilit', name='BX_' + rd['name'])
            raise Unsupported('enum constant ' + rd['name'])
        if k in ('FunctionDecl', 'CXXMethodDecl'):
            if did in self.tu.cname:
                cn = self.tu.cname[did]
                self.f.calls.add(cn)
                return E('fn', name=cn, extra='bx')
            nm = rd['name']
            self.f.ext_calls.add(nm)
            return E('fn', name=nm, extra='ext')
        raise Unsupported('DeclRefExpr to ' + k)

    def e_ImplicitCastExpr(self, n):
        ck = n.get('castKind')
        c = inner(n)[0]
        if ck in ('LValueToRValue', 'NoOp', 'FunctionToPointerDecay', 'ArrayToPointerDecay'):
            return self.expr(c)
        if ck in ('UncheckedDerivedToBase', 'DerivedToBase'):
            e = self.expr(c)
            isptr = qt(c).strip().endswith('*')
            if isptr:
                e = mk_deref(e)
            for p in n.get('path', []):
                e = E('member', a=e, name='bx_base_' + strip_cv(p['name']).replace('bxdecay0::', ''), extra=False)
            if isptr:
                e = mk_addr(e)
            return e
        if ck in ('IntegralToFloating', 'FloatingToIntegral', 'IntegralCast', 'FloatingCast'):
            return E('cast', name=self.T.c(qt(n)), a=self.expr(c))
        if ck in ('IntegralToBoolean', 'FloatingToBoolean', 'PointerToBoolean'):
            return E('paren', a=E('bin', op='!=', a=self.expr(c), b=E('ilit', name='0')))
        if ck == 'NullToPointer':
            return E('ilit', name='((void *)0)')
        if ck == 'BitCast':
            return E('cast', name=self.T.c(qt(n)), a=self.expr(c))
        if ck == 'ConstructorConversion':
            return self.expr(c)
        if ck == 'UserDefinedConversion':
            raise Unsupported('user-defined conversion')
        raise Unsupported('cast kind ' + str(ck))

    def explicit_cast(self, n):
        c = inner(n)[0]
        ck = n.get('castKind')
        t = qt(n)
        if ck == 'NoOp' and strip_cv(t) == strip_cv(qt(c)):
            return self.expr(c)
        if ck == 'ToVoid':
            return E('cast', name='void', a=self.expr(c))
        if ck == 'ConstructorConversion':
            return self.expr(c)
        return E('cast', name=self.T.c(t), a=self.expr(c))

    e_CStyleCastExpr = explicit_cast
    e_CXXStaticCastExpr = explicit_cast
    e_CXXFunctionalCastExpr = explicit_cast
    e_CXXReinterpretCastExpr = explicit_cast

    def e_CXXConstCastExpr(self, n):
        return self.expr(inner(n)[0])

    def e_BinaryOperator(self, n):
        op = n['opcode']
        a, b = inner(n)
        ea = self.expr(a)
        eb = self.expr(b)
        if op == '=':
            self.note_write(a)
            return E('assign', op='=', a=ea, b=eb, isd=self.isdouble(n))
        if op == ',':
            return E('comma', a=ea, b=eb)
        return E('bin', op=op, a=ea, b=eb, isd=self.isdouble(n))

    def e_CompoundAssignOperator(self, n):
        a, b = inner(n)
        self.note_write(a)
        return E('assign', op=n['opcode'], a=self.expr(a), b=self.expr(b), isd=self.isdouble(n))

    def e_UnaryOperator(self, n):
        op = n['opcode']
        c = inner(n)[0]
        e = self.expr(c)
        if op in ('++', '--'):
            self.note_write(c)
            return E('un', op=op, a=e, extra='post' if n.get('isPostfix') else 'pre')
        if op == '&':
            return mk_addr(e)
        if op == '*':
            return mk_deref(e)
        if op in ('-', '+', '!', '~'):
            return E('un', op=op, a=e, extra='pre', isd=self.isdouble(n))
        raise Unsupported('unary ' + op)

    def e_ConditionalOperator(self, n):
        a, b, c = inner(n)
        return E('cond', a=self.expr(a), b=self.expr(b), c=self.expr(c))

    def e_ArraySubscriptExpr(self, n):
        a, b = inner(n)
        return E('index', a=self.expr(a), b=self.expr(b))

    def e_MemberExpr(self, n):
        base = inner(n)[0]
        name = n['name']
        did = n.get('referencedMemberDecl')
        d = self.tu.decls.get(did)
        if d is not None and d.get('kind') in ('CXXMethodDecl',):
            raise Unsupported('bound member function outside a call')
        e = self.expr(base)
        if did in self.tu.globals:  # static data member
            return E('var', name=self.tu.globals[did][0], extra='global')
        if n.get('isArrow'):
            e = mk_deref(e)
        return E('member', a=e, name=name, extra=False)

    def e_InitListExpr(self, n):
        if 'array_filler' in n:
            # clang prints [filler, elem0, elem1, ...]; remaining elements are value-initialised, as in C
            elems = n['array_filler'][1:]
            if n['array_filler'][0].get('kind') != 'ImplicitValueInitExpr':
                raise Unsupported('array filler shape')
        else:
            elems = inner(n)
        return E('init', args=[self.expr(c) for c in elems])

    def e_ImplicitValueInitExpr(self, n):
        return E('ilit', name='0')

    def e_CXXDefaultArgExpr(self, n):
        raise Unsupported('default argument outside a call')

    def e_CXXScalarValueInitExpr(self, n):
        return E('ilit', name='0')

    def e_CXXConstructExpr(self, n):
        t = qt(n)
        args = inner(n)
        if self.T.is_string(t):
            if len(args) >= 1:
                a0 = args[0]
                lit = self._string_literal(a0)
                if lit is not None:
                    return E('call', a='BX_STR_LIT', args=[E('slit', name=lit)])
                if self.T.is_string(qt(a0)):
                    return self.expr(a0)  # copy
            raise Unsupported('std::string construction')
        tb = strip_cv(t).replace('bxdecay0::', '')
        if tb in self.T.records and len(args) == 1 and strip_cv(qt(args[0])).replace('bxdecay0::', '') == tb:
            return self.expr(args[0])  # copy construction of a value class
        if tb in self.T.records and not args:
            tmp = self.fresh()
            self.f.locals.append((t, tmp, None))
            init, ctor = self.construct(n, tmp)
            self.pre.append(S('decl', cxxtype=strip_cv(t), name=tmp, init=init, static=False, id=None, ctor=ctor))
            return E('var', name=tmp, extra='local')
        raise Unsupported('CXXConstructExpr of ' + t)

    def _string_literal(self, n):
        k = n.get('kind')
        if k == 'StringLiteral':
            return n['value']
        if k in ('ImplicitCastExpr', 'ParenExpr', 'MaterializeTemporaryExpr', 'CXXBindTemporaryExpr', 'ExprWithCleanups'):
            return self._string_literal(inner(n)[0])
        return None

    # ---- calls -----------------------------------------------------------------------------
    def _callee_decl(self, c0):
        """DeclRefExpr/MemberExpr below casts -> referencedDecl dict"""
        n = c0
        while n.get('kind') in ('ImplicitCastExpr', 'ParenExpr'):
            n = inner(n)[0]
        if n.get('kind') == 'DeclRefExpr':
            return n['referencedDecl']
        if n.get('kind') == 'MemberExpr':
            did = n.get('referencedMemberDecl')
            d = self.tu.decls.get(did)
            if d is not None:
                return {'id': did, 'kind': d['kind'], 'name': d.get('name'), 'type': d.get('type')}
            return {'id': did, 'kind': 'CXXMethodDecl', 'name': n.get('name'), 'type': n.get('type')}
        return None

    def param_types(self, fn_qualtype):
        s = fn_qualtype
        i = s.index('(')
        depth = 0
        j = i
        for j in range(i, len(s)):
            if s[j] == '(':
                depth += 1
            elif s[j] == ')':
                depth -= 1
                if depth == 0:
                    break
        ps = s[i + 1:j].strip()
        if not ps or ps == 'void':
            return []
        return split_top(ps)

    def args_for(self, ptypes, args, callee_id=None):
        out = []
        for i, a in enumerate(args):
            pt = ptypes[i] if i < len(ptypes) else ''
            if a.get('kind') == 'CXXDefaultArgExpr':
                pds = self.tu.fdecl_params.get(callee_id)
                src = None
                if pds and i < len(pds):
                    for x in inner(pds[i]):
                        if x.get('kind'):
                            src = x
                if src is None:
                    # the default value lives on another declaration of the same function
                    for fid, plist in self.tu.fdecl_params.items():
                        if self.tu.cname.get(fid) == self.tu.cname.get(callee_id) and i < len(plist):
                            for x in inner(plist[i]):
                                if x.get('kind'):
                                    src = x
                if src is None:
                    raise Unsupported('default argument value not found')
                a = src
            e = self.expr(a)
            if self.T.is_ref(pt):
                e = mk_addr(e)
            out.append(e)
        return out

    def e_CallExpr(self, n):
        ch = inner(n)
        c0 = ch[0]
        args = ch[1:]
        rd = self._callee_decl(c0)
        if rd is None:
            # call through a function pointer variable
            fe = self.expr(c0)
            ft = qt(c0)
            m = re.match(r'^(.*)\(\*\)\((.*)\)$', ft)
            ptypes = split_top(m.group(2)) if m and m.group(2).strip() else []
            return E('call', a=fe, args=self.args_for(ptypes, args), extra={'indirect': True})
        name = rd.get('name')
        did = rd['id']
        fq = rd.get('type', {}).get('qualType', '')
        if rd['kind'] in ('ParmVarDecl', 'VarDecl'):
            fe = self.expr(c0)
            t = fq
            m = re.match(r'^(.*)\(\*\)\((.*)\)$', t)
            ptypes = split_top(m.group(2)) if m and m.group(2).strip() else []
            return E('call', a=fe, args=self.args_for(ptypes, args), extra={'indirect': True})
        if did in self.tu.cname and self.tu.decls.get(did, {}).get('kind') in ('FunctionDecl', 'CXXMethodDecl'):
            cn = self.tu.cname[did]
            ptypes = self.param_types(fq)
            if name in EXTERNAL_PURE and cn == name:
                self.f.ext_calls.add(name)
                return E('call', a=name, args=self.args_for(ptypes, args, did))
            self.f.calls.add(cn)
            return E('call', a=E('fn', name=cn, extra='bx'), args=self.args_for(ptypes, args, did))
        # external function
        if name in LIBM:
            t0 = strip_cv(desugared(args[0])) if args else ''
            es = [self.expr(a) for a in args]
            if name == 'pow':
                # integer exponent literal -> powi (the reference writes x**n)
                pass
            return E('call', a=LIBM[name], args=es)
        if name == 'abs':
            t0 = strip_cv(desugared(n))
            es = [self.expr(a) for a in args]
            return E('call', a='bx_fabs' if t0 in ('double', 'float') else 'bx_iabs', args=es)
        if name in ('max', 'min'):
            t0 = strip_cv(desugared(n).replace('&', ''))
            es = [self.expr(a) for a in args]
            pre = 'bx_f' if t0 in ('double', 'float') else 'bx_i'
            return E('call', a=pre + name, args=es)
        if name in GSLPOW:
            return E('call', a='bx_powi', args=[self.expr(args[0]), E('ilit', name=str(GSLPOW[name]))],
                     extra={'powint': GSLPOW[name]})
        if name in ('quiet_NaN', 'infinity', 'epsilon', 'signaling_NaN') or (name in ('max', 'min', 'lowest') and not args):
            return E('call', a='bx_numeric_limits_double_' + name, args=[])
        if name in EXTERNAL_OK:
            self.f.ext_calls.add(name)
            ptypes = self.param_types(fq)
            return E('call', a='bx_ext_' + name, args=self.args_for(ptypes, args))
        raise Unsupported('call to external function ' + str(name))

    def e_CXXMemberCallExpr(self, n):
        ch = inner(n)
        me = ch[0]
        args = ch[1:]
        while me.get('kind') in ('ImplicitCastExpr', 'ParenExpr'):
            me = inner(me)[0]
        if me.get('kind') != 'MemberExpr':
            raise Unsupported('member call shape')
        obj = inner(me)[0]
        ot = strip_cv(qt(obj).replace('&', '').replace('*', '').strip()).replace('bxdecay0::', '')
        mname = me['name']
        did = me.get('referencedMemberDecl')
        oe = self.expr(obj)
        if me.get('isArrow'):
            optr = oe
        else:
            optr = mk_addr(oe)
        if did in self.tu.cname and self.tu.decls[did]['kind'] == 'CXXMethodDecl':
            cn = self.tu.cname[did]
            self.f.calls.add(cn)
            d = self.tu.decls[did]
            ptypes = self.param_types(qt(d))
            call = E('call', a=E('fn', name=cn, extra='bx'), args=[optr] + self.args_for(ptypes, args, did))
            rt = qt(d)[:qt(d).index('(')].strip()
            if self.T.is_ref(rt):
                return mk_deref(call)
            return call
        oc = None
        try:
            oc = self.T.c(qt(obj).replace('&', '').replace('*', ''))
        except Unsupported:
            pass
        if oc == 'bx_vec_particle':
            es = [self.expr(a) for a in args]
            if mname in ('back', 'front', 'at'):
                return mk_deref(E('call', a='bx_vec_particle_' + mname, args=[optr] + es))
            if mname in ('size', 'empty', 'clear', 'reserve', 'pop_back'):
                return E('call', a='bx_vec_particle_' + mname, args=[optr] + es)
            if mname in ('push_back', 'emplace_back'):
                return E('call', a='bx_vec_particle_push_back', args=[optr] + [mk_addr(x) for x in es])
            raise Unsupported('vector method ' + mname)
        if oc == 'bx_string':
            args = [a for a in args if a.get('kind') != 'CXXDefaultArgExpr']
            es = [self.expr(a) for a in args]
            if mname in ('find', 'rfind', 'compare') and es:
                es = [mk_addr(es[0])] + es[1:]
            if mname in ('empty', 'size', 'length', 'clear', 'substr', 'find', 'compare', 'rfind'):
                return E('call', a='bx_string_' + mname, args=[optr] + es)
            raise Unsupported('string method ' + mname)
        if oc == 'bx_set_int':
            es = [self.expr(a) for a in args]
            if mname in ('count', 'size', 'empty', 'clear', 'insert'):
                return E('call', a='bx_set_int_' + mname, args=[optr] + es)
            raise Unsupported('set method ' + mname)
        raise Unsupported('member call %s on %s' % (mname, ot))

    def e_CXXOperatorCallExpr(self, n):
        ch = inner(n)
        rd = self._callee_decl(ch[0])
        args = ch[1:]
        name = rd.get('name') if rd else None
        if rd and rd['id'] in self.tu.cname and self.tu.decls.get(rd['id'], {}).get('kind') in ('FunctionDecl', 'CXXMethodDecl'):
            d = self.tu.decls[rd['id']]
            cn = self.tu.cname[rd['id']]
            rec = self.tu.parent_rec.get(rd['id'])
            if name == 'operator=' and d.get('isImplicit'):
                self.note_write(args[0])
                return E('assign', op='=', a=self.expr(args[0]), b=self.expr(args[1]))
            if rec == 'i_random' and name == 'operator()':
                self.f.draws += 1
                return E('call', a='bx_draw', args=[mk_addr(self.expr(args[0]))])
            self.f.calls.add(cn)
            ptypes = self.param_types(qt(d))
            if d['kind'] == 'CXXMethodDecl':
                return E('call', a=E('fn', name=cn, extra='bx'), args=[mk_addr(self.expr(args[0]))] + self.args_for(ptypes, args[1:], rd['id']))
            return E('call', a=E('fn', name=cn, extra='bx'), args=self.args_for(ptypes, args, rd['id']))
        t0 = qt(args[0]) if args else ''
        if name == 'operator()' and 'i_random' in t0:
            self.f.draws += 1
            return E('call', a='bx_draw', args=[mk_addr(self.expr(args[0]))])
        if name == 'operator[]':
            oc = self.T.c(t0.replace('&', ''))
            if oc == 'bx_vec_particle':
                return mk_deref(E('call', a='bx_vec_particle_at', args=[mk_addr(self.expr(args[0])), self.expr(args[1])]))
            raise Unsupported('operator[] on ' + t0)
        if self.T.is_string(t0):
            lit = self._string_literal(args[1]) if len(args) > 1 else None
            opn = {'operator==': 'eq', 'operator!=': 'ne', 'operator=': 'assign'}.get(name)
            if opn is None:
                raise Unsupported('string ' + str(name))
            if opn == 'assign':
                self.note_write(args[0])
            if lit is not None:
                return E('call', a='bx_string_%s_lit' % opn, args=[mk_addr(self.expr(args[0])), E('slit', name=lit)])
            return E('call', a='bx_string_' + opn, args=[mk_addr(self.expr(args[0])), mk_addr(self.expr(args[1]))])
        if name == 'operator=':
            tb = strip_cv(t0).replace('bxdecay0::', '')
            if tb in self.T.records:  # implicit copy assignment of a value class
                self.note_write(args[0])
                return E('assign', op='=', a=self.expr(args[0]), b=self.expr(args[1]))
        raise Unsupported('operator call %s on %s' % (name, t0))

    # ---- C07 frame scan --------------------------------------------------------------------
    def note_write(self, target):
        """record the root object of an assignment target"""
        n = target
        path = []
        while True:
            k = n.get('kind')
            if k in ('ParenExpr', 'ImplicitCastExpr'):
                n = inner(n)[0]
            elif k == 'MemberExpr':
                path.append(n['name'])
                n = inner(n)[0]
            elif k == 'ArraySubscriptExpr':
                n = inner(n)[0]
            elif k == 'UnaryOperator' and n.get('opcode') == '*':
                path.append('*')
                n = inner(n)[0]
            elif k in ('CStyleCastExpr', 'CXXStaticCastExpr'):
                n = inner(n)[0]
            else:
                break
        k = n.get('kind')
        if k == 'DeclRefExpr':
            rd = n['referencedDecl']
            did = rd['id']
            if did in self.localids:
                nm, t, kind = self.localids[did]
                node_static = False
                self.f.writes.append((kind, nm, t, '.'.join(reversed(path))))
            elif did in self.tu.globals:
                self.f.writes.append(('global', self.tu.globals[did][0], self.tu.globals[did][1], ''))
            else:
                self.f.writes.append(('unknown', rd.get('name'), '', ''))
        elif k == 'CXXThisExpr':
            self.f.writes.append(('this', 'this', '', '.'.join(reversed(path))))
        elif k in ('CallExpr', 'CXXMemberCallExpr', 'CXXOperatorCallExpr'):
            self.f.writes.append(('callresult', self.src(n) or '?', '', '.'.join(reversed(path))))
        else:
            self.f.writes.append(('other', k, '', ''))


# ----------------------------------------------------------------------------------------------
# C printer for the statement IR
# ----------------------------------------------------------------------------------------------

class Printer:
    def __init__(self, types, opts, maythrow=None, zero_ret='0'):
        self.T = types
        self.o = opts
        self.maythrow = maythrow or set()
        self.lines = []
        self.fn = None

    def zero(self):
        r = self.fn.ret
        if r == 'void':
            return 'return;'
        if r.startswith('struct ') and not r.endswith('*'):
            return '{ %s bx_z; __builtin_memset(&bx_z, 0, sizeof bx_z); return bx_z; }' % r
        return 'return 0;'

    def calls_in(self, e):
        found = []

        def f(x):
            if x.k == 'call' and isinstance(x.a, E) and x.a.k == 'fn' and x.a.name in self.maythrow:
                found.append(x.a.name)
            if x.k == 'call' and isinstance(x.extra, dict) and x.extra.get('indirect'):
                found.append('indirect')
        walk_expr(e, f)
        return found

    def exc_check(self, e, ind):
        if e is not None and self.calls_in(e):
            self.lines.append('%sif (bx_exc) %s' % (ind, self.zero()))

    def decl_text(self, s):
        nm = self.o.prefix + s.name
        t = s.cxxtype
        isref = self.T.is_ref(t)
        d = self.T.decl(t.replace('&', '*') if isref else t, nm)
        d = re.sub(r'^\s*', '', d)
        return d

    def stmt(self, s, ind):
        L = self.lines
        o = self.o
        k = s.kind
        if k == 'block':
            L.append(ind + '{')
            for x in s.items:
                self.stmt(x, ind + '  ')
            L.append(ind + '}')
        elif k == 'multi':
            for x in s.items:
                self.stmt(x, ind)
        elif k == 'empty':
            L.append(ind + ';' + (' /* %s */' % s.why if s.why else ''))
        elif k == 'expr':
            L.append(ind + P(s.e, o) + ';')
            self.exc_check(s.e, ind)
        elif k == 'decl':
            d = self.decl_text(s)
            if o.hoist and s.id is not None or (o.hoist and s.id is None):
                # hoisted: declaration becomes an assignment (the variable lives at file scope)
                if s.init is not None and s.init.k == 'init':
                    # an array with an initialiser list cannot be assigned as a whole in C: element by element
                    for i_, x_ in enumerate(s.init.args):
                        L.append('%s%s%s[%d] = %s;' % (ind, o.prefix, s.name, i_, P(x_, o)))
                elif s.init is not None:
                    L.append('%s%s%s = %s;' % (ind, o.prefix, s.name, P(s.init, o)))
                    self.exc_check(s.init, ind)
                else:
                    L.append(ind + ';')
            else:
                if s.init is not None:
                    L.append('%s%s = %s;' % (ind, d, P(s.init, o)))
                    self.exc_check(s.init, ind)
                else:
                    L.append('%s%s;' % (ind, d))
            if getattr(s, 'ctor', None) is not None:
                L.append(ind + P(s.ctor, o) + ';')
        elif k == 'if':
            L.append('%sif (%s)' % (ind, P(s.cond, o)))
            self.sub(s.then, ind)
            if s.els is not None:
                L.append(ind + 'else')
                self.sub(s.els, ind)
        elif k == 'goto':
            L.append('%sgoto %s;' % (ind, s.label))
        elif k == 'label':
            L.append('%s%s: ;' % (ind[:-2] if len(ind) >= 2 else ind, s.name))
            self.stmt(s.stmt, ind)
        elif k == 'return':
            if s.e is None:
                L.append(ind + 'return;')
            else:
                L.append('%sreturn %s;' % (ind, P(s.e, o)))
        elif k == 'throw':
            L.append('%s{ bx_exc = 1; %s }' % (ind, self.zero()))
        elif k == 'for':
            init = ''
            if s.init is not None:
                if s.init.kind == 'decl':
                    if o.hoist:
                        init = '%s%s = %s' % (o.prefix, s.init.name, P(s.init.init, o))
                    else:
                        init = '%s = %s' % (self.decl_text(s.init), P(s.init.init, o))
                elif s.init.kind == 'expr':
                    init = P(s.init.e, o)
                elif s.init.kind == 'empty':
                    init = ''
                else:
                    raise Unsupported('for init ' + s.init.kind)
            L.append('%sfor (%s; %s; %s)' % (ind, init, P(s.cond, o) if s.cond else '', P(s.inc, o) if s.inc else ''))
            self.loop_annot(s, ind)
            self.sub(s.body, ind)
        elif k == 'while':
            L.append('%swhile (%s)' % (ind, P(s.cond, o)))
            self.loop_annot(s, ind)
            self.sub(s.body, ind)
        elif k == 'do':
            L.append(ind + 'do')
            self.loop_annot(s, ind)
            self.sub(s.body, ind)
            L.append('%swhile (%s);' % (ind, P(s.cond, o)))
        elif k == 'switch':
            L.append('%sswitch (%s)' % (ind, P(s.cond, o)))
            self.sub(s.body, ind)
        elif k == 'case':
            L.append('%scase %s:' % (ind, P(s.value, o)))
            self.stmt(s.stmt, ind + '  ')
        elif k == 'default':
            L.append(ind + 'default:')
            self.stmt(s.stmt, ind + '  ')
        elif k == 'break':
            L.append(ind + 'break;')
        elif k == 'continue':
            L.append(ind + 'continue;')
        elif k == 'raw':
            for ln in s.text.split('\n'):
                L.append(ind + ln)
        else:
            raise Unsupported('print stmt ' + k)

    def loop_annot(self, s, ind):
        a = getattr(s, 'annot', None)
        if a:
            for ln in a:
                L = self.lines
                L.append(ind + '  ' + ln)

    def sub(self, s, ind):
        if s.kind == 'block':
            self.stmt(s, ind)
        else:
            self.lines.append(ind + '{')
            self.stmt(s, ind + '  ')
            self.lines.append(ind + '}')

    def signature(self, f, name=None):
        ps = []
        for (pre, nm, t, isref) in f.params:
            if pre is not None:
                ps.append(pre)
            else:
                ps.append(self.T.decl(t, self.o.prefix + nm if False else nm))
        return '%s %s(%s)' % (f.ret, name or (self.o.fnprefix + f.name), ', '.join(ps) if ps else 'void')

    def function(self, f, contract='', name=None):
        self.fn = f
        self.lines = []
        self.lines.append(self.signature(f, name))
        if contract:
            self.lines.append(contract)
        self.stmt(f.body, '')
        return '\n'.join(self.lines)


def render_struct(types, cname, bases, fields, allrecs):
    out = ['struct %s {' % cname]
    for b in bases:
        out.append('  struct %s bx_base_%s;' % (b, b))
    for (t, name, node) in fields:
        out.append('  %s;' % types.decl(t, name))
    if len(out) == 1:
        out.append('  char bx_empty;')
    out.append('};')
    return out

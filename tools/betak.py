"""enforcement of the L2 contracts of the beta samplers decay0_beta / beta1 / beta2 / beta_1fu (contracts/kernels.spec).

Each public sampler is a wrapper that packs its arguments into a parameter block and calls a worker with a rejection loop
(unbounded), so DFCC with unwinding cannot close it.  Two generated obligations sets instead:

  A. wrapper: its body with the worker replaced by an assume/guarantee stub of the WORKER contract (the wrapper's own
     clauses with Qbeta_/Zdtr_ rewritten to the fields of the block the worker receives) -- one loop-free query;
  B. worker: label machine (segments.py): one loop-free query per cut point, from a havocked state that satisfies the
     worker's precondition and the loop invariant (nothing emitted yet, no ghost accounting changed except the deviate
     counter), checked again on arrival at every cut point; at the exit the worker's ensures are asserted.

Abstractions (listed in the evidence): deviate*x is any value between 0 and x; products of two non-literal doubles and
quotients are uninterpreted; tgold / funbeta* return any double (they only feed the accept/reject comparison);
the ghost deviate counter does not wrap (fewer than 2^47 rejection rounds).
"""
import copy
import re
import bx2c
import extract
import oblig
import segments
import kernels
import relk

ASPECTS = ('count', 'draws', 'enom', 'time')
WORKERS = {w: relk.WRAPPERS[w] for w in ('decay0_beta', 'decay0_beta1', 'decay0_beta2', 'decay0_beta_1fu')}


def worker_contract(contracts, wname):
    worker, struct, fmap = WORKERS[wname]
    c0 = contracts[wname]
    c = copy.deepcopy(c0)
    c.name = worker
    ren = {wp: '((struct %s *)params_)->%s' % (struct, fld) for wp, fld in fmap}

    def rn(x):
        for a, b in ren.items():
            x = re.sub(r'\b%s\b' % re.escape(a), b, x)
        return x
    c.requires = [rn(x) for x in c0.requires]
    c.ensures = [rn(x) for x in c0.ensures]
    c.assigns = [(t, rn(x)) for t, x in c0.assigns]
    c.level = 'L2'
    return c


def build_wrapper_query(db, contracts, consts, wname):
    worker = WORKERS[wname][0]
    cs = dict(contracts)
    cs[worker] = worker_contract(contracts, wname)
    q = kernels.build_stub_enforce_query(db, cs, consts, wname)
    q['meta']['enforced_by'] = 'generator harness: wrapper body with the worker replaced by its contract stub'
    q['meta']['worker'] = worker
    return q


PRELUDE_EXTRA = '''
/* deviate * x, 0 < deviate < 1: any value between 0 and x (monotone rounding) */
static double bx_scale(double u, double x) { double r = nondet_double(); __CPROVER_assume(x >= 0.0 ? (r >= 0.0 && r <= x) : (x < 0.0 ? (r <= 0.0 && r >= x) : r != r)); return r; }
double __CPROVER_uninterpreted_mulx(double, double); double __CPROVER_uninterpreted_divx(double, double);
static double bx_mulx(double a, double b) { return __CPROVER_uninterpreted_mulx(a, b); }
static double bx_divx(double a, double b) { return __CPROVER_uninterpreted_divx(a, b); }
static _Bool bk_eq(double a, double b) { return a == b || (a != a && b != b); }
'''


def build_worker_queries(db, contracts, consts, wname):
    worker, struct, fmap = WORKERS[wname]
    T = db['types']
    f = db['funcs'][worker]
    c = worker_contract(contracts, wname)
    o = bx2c.Opts(uf=False, prefix='x_', hoist=True)
    o.scale_draw = True
    o.abstract_nonlinear = True
    body = segments.lower_loops(copy.deepcopy(f.body)) if segments.has_structured_loop(f.body) else f.body
    cuts = [n for k, n in segments.order_positions(body) if k == 'label' and re.match(r'^bx_loop\d+_head$', n)]
    cuts += [l for l in segments.backward_targets(body) if l not in cuts]
    decls, seg, ids = segments.segment_function(f, T, o, cuts, segname='bk_seg')
    pr = bx2c.Printer(T, bx2c.Opts())
    parts = [oblig.prelude(db, ''), PRELUDE_EXTRA, 'static struct %s P; static bx_prng rng; static struct event ev; static double td;' % struct, decls]
    stubs = []
    for cal in sorted(f.calls):
        g = db['funcs'].get(cal)
        if g is None:
            raise bx2c.Unsupported('%s calls %s: not rendered' % (worker, cal))
        pn = [p[1] for p in g.params]
        if cal == 'decay0_tgold':
            stubs.append(pr.signature(g) + '\n{\n  *%s = nondet_double(); *%s = nondet_double();   /* any extremum: only the accept/reject comparison reads it */\n}' % (pn[6], pn[7]))
        elif re.match(r'^decay0_funbeta', cal):
            stubs.append(pr.signature(g) + '\n{\n  return nondet_double();   /* any shape value */\n}')
        elif cal in contracts and contracts[cal].level in ('L0', 'L1', 'L2'):
            stubs.append(oblig.stub_text(db, contracts[cal], consts, 'light', ASPECTS))
        else:
            raise bx2c.Unsupported('%s calls %s: neither contract nor stub' % (worker, cal))
    parts += stubs
    parts.append(seg)
    pnames = [p[1] for p in f.params]   # prng_, event_, tcnuc_, thnuc_, tdnuc_, params_
    ptrs = relk.struct_pointer_locals(f)
    sel = oblig._Sel(c, lambda a: a is None or a in ASPECTS)

    def fix(x):
        x = oblig.subst_consts(x, consts)
        x = x.replace('((struct %s *)params_)->' % struct, 'P.')
        x = re.sub(r'\*tdnuc_\b', 'td', x)
        for nm in ('tcnuc_', 'thnuc_'):
            x = re.sub(r'\b%s\b' % nm, 'x_' + nm, x)
        return x
    queries = []
    for pc in [0] + [ids[cn] for cn in cuts]:
        cname = ([None] + cuts)[pc]
        tag = '%s seg@%s' % (worker, cname or 'entry')
        H = ['void harness(void)', '{']
        H.append('  __CPROVER_havoc_object(&P);')
        H.append('  ev._particles_.data = 0; ev._particles_.size = 0; ev._particles_.cap = 0; bx_exc = 0;')
        H.append('  const unsigned long np0 = nondet_ulong(), dr0 = nondet_ulong(); const double en0 = nondet_double(), tl0 = nondet_double(), ev0 = nondet_double();')
        H.append('  __CPROVER_assume(np0 <= 1000 && dr0 <= 1000000);')
        H.append('  g_np = np0; g_draws = dr0; g_enom = en0; g_tlast = tl0; g_evis = ev0;')
        H.append('  x_%s = &rng; x_%s = &ev; x_%s = nondet_double(); x_%s = nondet_double(); td = nondet_double(); x_%s = &td; x_%s = (void *)&P;' % tuple(pnames))
        for k, r in sel.requires:
            H.append('  __CPROVER_assume(%s);' % fix(r))
        H.append('  const double td0 = td;')
        if pc != 0:
            for (t, nm, did) in f.locals:
                tt = bx2c.strip_cv(t.replace('bxdecay0::', ''))
                if tt in ('double', 'int', 'bool') or tt in T.enums or tt.replace('::', '__') in T.enums or tt == 'particle_code':
                    H.append('  x_%s = nondet_%s();' % (nm, 'double' if tt == 'double' else 'int'))
            for nm, path in ptrs.items():
                H.append('  x_%s = %s;' % (nm, path.replace('xs.', 'P.').replace('&xs', '&P')))
            H.append('  /* loop invariant: nothing emitted or booked yet; only deviates were consumed (counter does not wrap) */')
            H.append('  g_draws = nondet_ulong(); __CPROVER_assume(g_draws >= dr0 && g_draws - dr0 <= 140737488355328ul);')
            for cnd in loop_ranges(f, cname):
                H.append('  __CPROVER_assume(%s);' % cnd)
        H.append('  const unsigned long dr_in = g_draws;')
        if pc != 0 and loop_ranges(f, cname):
            H.append('  const int bk_cnt_in = %s;' % re.match(r'^(x_\w+) >=', loop_ranges(f, cname)[0]).group(1))
        H.append('  int nx = bk_seg(%d);' % pc)
        H.append('  __CPROVER_assert(!bx_exc, "C04 %s: no exception under the precondition");' % tag)
        H.append('  if (nx == %d) {' % segments.BX_EXIT)
        for e in sel.ensures:
            e2 = fix(e)
            for (a, b, kind, inner) in sorted(oblig.find_old(e2), reverse=True):
                old = {'g_np': 'np0', 'g_draws': 'dr0', 'g_enom': 'en0', 'g_tlast': 'tl0', 'g_evis': 'ev0'}[inner]
                e2 = e2[:a] + old + e2[b:]
            if 'g_draws' in e2 and pc == 0 and not cuts:
                pass
            pid = 'C03' if re.search(r'g_evis|g_enom', e) else 'C04'
            if 'g_draws' in e and pc != 0:
                # from an inner cut point the lower bound counts the deviates of this segment only; the total is the
                # invariant (>= dr0) plus this segment
                e2 = e2.replace('g_draws - dr0 >= 4', 'g_draws - dr_in >= 4')
            H.append('    __CPROVER_assert(%s, "%s %s ensures: %s");' % (e2, pid, tag, e.replace('"', "'")))
        H.append('  } else {')
        H.append('    __CPROVER_assert(nx >= 1 && nx <= %d, "C04 label machine %s: successor is a cut point");' % (len(cuts), tag))
        H.append('    __CPROVER_assert(g_np == np0 && bk_eq(g_enom, en0) && bk_eq(g_tlast, tl0) && bk_eq(g_evis, ev0) && bk_eq(td, td0), "C04 %s: loop invariant: nothing emitted or booked before the rejection loop ends");' % tag)
        H.append('    __CPROVER_assert(g_draws >= dr_in, "C04 %s: loop invariant: the deviate counter only grows");' % tag)
        for cn in cuts:
            for cnd in loop_ranges(f, cn):
                H.append('    __CPROVER_assert(nx != %d || (%s), "C08 %s: loop counter range of %s on arrival");' % (ids[cn], cnd, tag, cn))
        if pc != 0 and not loop_ranges(f, cname):
            H.append('    __CPROVER_assert(nx != %d || g_draws > dr_in, "C04 %s: every round of the rejection loop consumes a deviate");' % (pc, tag))
        elif pc != 0:
            # a counted loop with literal bounds: the counter is the variant
            v_ = re.match(r'^(x_\w+) >=', loop_ranges(f, cname)[0]).group(1)
            H.append('    __CPROVER_assert(nx != %d || %s > bk_cnt_in, "C04 %s: the loop counter increases on every round (variant of the counted loop)");' % (pc, v_, tag))
        H.append('  }')
        H.append('  __CPROVER_assert(0, "canary %s: harness end is reachable (must be refuted)");' % tag)
        H.append('}')
        meta = {'function': worker, 'level': 'L2', 'what': 'c04', 'segment': pc, 'cut': cname, 'cuts': cuts, 'wrapper': wname,
                'stubs': sorted(f.calls), 'enforced_by': 'generator harness, label machine (not DFCC)'}
        queries.append({'c': '\n\n'.join(parts + ['\n'.join(H)]) + '\n', 'entry': 'harness', 'meta': meta})
    return queries


def loop_ranges(f, cut):
    """for (int i = lo; i <= hi; i++) with literal bounds: lo <= i <= hi+1 at the loop head `cut` (numbered in source order)"""
    if cut is None:
        return []
    m = re.match(r'^bx_loop(\d+)_head$', cut)
    if not m:
        return []
    want = int(m.group(1))
    found = []
    count = [0]

    def fs(s):
        if s.kind in ('for', 'while', 'do'):
            count[0] += 1
            me = count[0]
            if s.kind == 'for' and me == want and s.init is not None and s.cond is not None:
                try:
                    if s.init.kind == 'decl':
                        v, lo = s.init.name, s.init.init
                    else:
                        v, lo = s.init.e.a.name, s.init.e.b
                    cnd = s.cond
                    while cnd.k == 'paren':
                        cnd = cnd.a
                    if lo.k == 'ilit' and cnd.k == 'bin' and cnd.op in ('<=', '<') and cnd.b.k == 'ilit':
                        hi = int(cnd.b.name.split()[0]) + (1 if cnd.op == '<=' else 0)
                        found.append('x_%s >= %s && x_%s <= %d' % (v, lo.name.split()[0], v, hi))
                except AttributeError:
                    pass
        for y in getattr(s, 'items', []) or []:
            fs(y)
        for a in ('then', 'els', 'stmt', 'body'):
            y = getattr(s, a, None)
            if isinstance(y, bx2c.S):
                fs(y)
    fs(f.body)
    return found

#!/usr/bin/env python3
"""cross-check of f77c (the renderer of the Fortran reference that every relational obligation rests on) against a
Fortran compiler: gcc's f951 is installed (no `gfortran` driver, but `gcc -x f77` works), so the reference text itself can
be compiled and run.

For every reference routine that f77c translates, the routine is run twice from the same scripted deviate sequence:
  (F) the original Fortran text compiled by gcc with REAL promoted to 8 bytes (-fdefault-real-8: exactly f77c's documented
      model "reference REAL arithmetic is rendered as double"), and
  (C) f77c's C rendering (the IR the CBMC queries print, here printed with IEEE arithmetic and compiled natively),
and the event records (number of particles, codes, momenta, times), the out-parameter and the number of deviates consumed
are compared.  CERNLIB externals (cgamma, divdif) are the same C code on both sides; rnd1 is the scripted source.

This is a differential self-check of the extraction (like native.py for bx2c), not a proof: it turns "f77c is trusted" into
"f77c agrees with gcc's Fortran front end on N seeds per routine".  usage: refnative.py [seeds] -> JSON on stdout"""
import json
import os
import re
import subprocess
import sys
sys.path.insert(0, os.path.dirname(os.path.abspath(__file__)))
import bx2c
import extract
import f77c

VERIF = extract.VERIF
REF = os.path.join(bx2c.REPO, 'resources/code/decay0/decay0_2020-04-20.for')
WORK = os.path.join(VERIF, 'build', 'refnative')

ACCESSORS = '''
      subroutine vpgetev(n,icodes,pm,pt)
      common/genevent/tevst,npfull,npgeant(100),pmoment(3,100),ptime(100)
      integer icodes(100)
      double precision pm(3,100),pt(100)
      n=npfull
      do i=1,100
         icodes(i)=npgeant(i)
         pt(i)=ptime(i)
         pm(1,i)=pmoment(1,i)
         pm(2,i)=pmoment(2,i)
         pm(3,i)=pmoment(3,i)
      enddo
      return
      end
      subroutine vpsetbb(z,a,e0v,e1v,ds,df,md,c1,c2,c3,c4,c5,c6,c7)
      common/helpbb/Zdbb,Adbb,e0,e1
      common/denrange/dens,denf,mode
      common/eta_nme/chi_GTw,chi_Fw,chip_GT,chip_F,chip_T,chip_P,chip_R
      double precision dens,denf
      Zdbb=z
      Adbb=a
      e0=e0v
      e1=e1v
      dens=ds
      denf=df
      mode=md
      chi_GTw=c1
      chi_Fw=c2
      chip_GT=c3
      chip_F=c4
      chip_T=c5
      chip_P=c6
      chip_R=c7
      return
      end
      subroutine vpreset
      common/genevent/tevst,npfull,npgeant(100),pmoment(3,100),ptime(100)
      npfull=0
      tevst=0.
      do i=1,100
         npgeant(i)=0
         ptime(i)=0.
         pmoment(1,i)=0.
         pmoment(2,i)=0.
         pmoment(3,i)=0.
      enddo
      return
      end
'''

SUPPORT = r'''
#include <math.h>
#include <stdio.h>
#include <stdlib.h>
#include <complex.h>
#undef I
#include <gsl/gsl_sf_gamma.h>
#include <gsl/gsl_errno.h>
/* scripted deviate source shared by both sides (reset before each run) */
static unsigned long long vp_s; unsigned long vp_ndraw;
void vp_seed(unsigned long long s) { vp_s = s * 2862933555777941757ULL + 3037000493ULL; vp_ndraw = 0; }
static double vp_next(void) { vp_s = vp_s * 6364136223846793005ULL + 1442695040888963407ULL; vp_ndraw++; return ((double)(vp_s >> 11) + 0.5) / 9007199254740992.0; }
double rnd1_(double *d) { return vp_next(); }
double rndm_(double *d) { return vp_next(); }   /* CERNLIB V104, used by a few routines instead of rnd1 */
void datime_(int *a, int *b) { *a = 0; *b = 0; }
double bx_draw(bx_prng *p) { return vp_next(); }
bx_prng *prng_ = 0;
/* CERNLIB C305 complex gamma: the same C code serves the Fortran side (cgamma) and the rendering (lngammaabs) */
static void vp_lng(double zr, double zi, double *lnr, double *arg) { gsl_sf_result a, b; gsl_set_error_handler_off(); gsl_sf_lngamma_complex_e(zr, zi, &a, &b); *lnr = a.val; *arg = b.val; }
double _Complex cgamma_(double _Complex *z) { double l, a; vp_lng(creal(*z), cimag(*z), &l, &a); return exp(l) * (cos(a) + _Complex_I * sin(a)); }
double bx_lngamma_abs(double g, double y) { double l, a; vp_lng(g, y, &l, &a); return l; }
double ref_lngammaabs(double g, double y) { return bx_lngamma_abs(g, y); }
/* not reachable from the routines compared here */
double gauss_(void) { fprintf(stderr, "gauss called\n"); abort(); }
double dgmlt1_(void) { fprintf(stderr, "dgmlt1 called\n"); abort(); }
double dgmlt2_(void) { fprintf(stderr, "dgmlt2 called\n"); abort(); }
/* event record of the rendering */
int ref_ev_npfull; double ref_ev_tevst; int vp_code[101]; double vp_p[4][101], vp_t[101];
int ref_npgeant(int i) { return vp_code[i]; }
double ref_pmoment(int k, int i) { return vp_p[k][i]; }
double ref_ptime(int i) { return vp_t[i]; }
void ref_set_npgeant(int i, int v) { if (i >= 1 && i <= 100) vp_code[i] = v; }
void ref_set_pmoment(int k, int i, double v) { if (i >= 1 && i <= 100) vp_p[k][i] = v; }
void ref_set_ptime(int i, double v) { if (i >= 1 && i <= 100) vp_t[i] = v; }
void vp_creset(void) { ref_ev_npfull = 0; ref_ev_tevst = 0.0; for (int i = 0; i <= 100; i++) { vp_code[i] = 0; vp_t[i] = 0; vp_p[1][i] = vp_p[2][i] = vp_p[3][i] = 0; } }
'''


def strip_programs(text):
    """the reference file without its PROGRAM unit(s) (a C main drives the comparison)"""
    out = []
    skip = False
    for ln in text.split('\n'):
        # DEC tab form -> standard fixed form (gfortran accepts "TAB digit" continuations only, the file uses "TAB +")
        if ln[:1] not in 'cC*!dD' or ln[:2] in ('d\t', 'D\t'):
            m = re.match(r'^([ 0-9dD]*)\t(.*)$', ln)
            if m:
                lab, rest = m.group(1), m.group(2)
                if rest[:1] in '+123456789' and not lab.strip():
                    ln = '     +' + rest[1:]
                else:
                    ln = lab.ljust(6) + rest
        code = ln[6:] if len(ln) > 6 and ln[:1] not in 'cC*!' else ''
        if re.match(r'^\s*program\s+\w+', code, re.I) or re.match(r'^\s*function\s+rnd1\s*\(', code, re.I):
            skip = True     # PROGRAM units, and rnd1 (CERNLIB ranlux behind it): the scripted deviate source replaces it
        if not skip:
            out.append(ln)
        elif re.match(r'^\s*end\s*$', code, re.I):
            skip = False
    return '\n'.join(out)


def lit(v):
    v = v.strip().lower().replace('d', 'e')
    if re.match(r'^[+-]?\d+$', v):
        return v
    return v


def render_units(db, prog):
    """C text of every unit f77c translates, plus the list of (name, kind) that can be driven"""
    T = db['types']
    o = bx2c.Opts(uf=False)
    pr = bx2c.Printer(T, o)
    funcs = {}
    failed = {}
    for name in sorted(prog.units):
        u = prog.units[name]
        if u.kind not in ('subroutine', 'function'):
            continue
        try:
            funcs[name] = prog.translate(name)
        except (f77c.Unsupported, bx2c.Unsupported, KeyError, AttributeError, IndexError, ValueError) as e:
            failed[name] = str(e)[:200]
    # closure: a unit is usable when every callee is a translated unit or a support function
    support = {'lngammaabs', 'divdif'}
    ok = set(funcs)
    changed = True
    while changed:
        changed = False
        for n in list(ok):
            for c in funcs[n].calls:
                if c.startswith('ref_'):
                    continue
                if c not in ok and c not in support:
                    ok.discard(n)
                    failed.setdefault(n, 'callee %s not available' % c)
                    changed = True
                    break
    protos, defs, glob = [], [], {}
    for n in sorted(ok):
        fr = funcs[n]
        sig = pr.signature(fr)
        protos.append(sig + ';')
        L = [sig, '{']
        consts = getattr(fr, 'commons', {})
        for (ct, nm, _) in fr.locals:
            if nm in consts:
                vals = prog.common_init.get(nm)
                if vals is None:
                    L.append('  static %s;' % T.decl(ct, nm))
                elif '[' in ct:
                    L.append('  static const %s = {%s};' % (T.decl(ct, nm), ', '.join(lit(v) for v in vals)))
                else:
                    L.append('  const %s = %s;' % (T.decl(ct, nm), lit(vals[0])))
            else:
                L.append('  %s%s;' % (T.decl(ct, nm), ' = {0}' if '[' in ct else ' = 0'))
        for g, (t_, dims, blk, pos) in sorted(getattr(fr, 'state_commons', {}).items()):
            glob[g] = '%s %s%s;' % ({'d': 'double', 'i': 'int'}[t_], g, '[%s]' % dims[0] if dims else '')
        pr.fn = fr
        pr.lines = []
        pr.stmt(fr.body, '  ')
        L += pr.lines
        if fr.ret == 'void':
            pass
        L.append('}')
        defs.append('\n'.join(L))
    return protos, defs, glob, ok, failed, funcs


def main():
    seeds = int(sys.argv[1]) if len(sys.argv) > 1 else 40
    os.makedirs(WORK, exist_ok=True)
    db = extract.extract()
    prog = f77c.Program(REF)
    protos, defs, glob, ok, failed, funcs = render_units(db, prog)
    text = open(REF, errors='replace').read()
    open(os.path.join(WORK, 'ref.for'), 'w').write(strip_programs(text) + ACCESSORS)
    T = db['types']
    divdif = bx2c.Printer(T, bx2c.Opts()).function(db['funcs']['decay0_divdif'])
    drive = []
    for n in sorted(ok):
        u = prog.units[n]
        if u.kind == 'subroutine' and [a.lower() for a in u.args] == ['tcnuc', 'tdnuc']:
            drive.append((n, 'nuclide'))
        elif u.kind == 'subroutine' and len(u.args) == 1 and u.args[0].lower() in ('levelkev',) and n.endswith('low'):
            drive.append((n, 'low'))
    C = ['#define BX_NATIVE 1', '#include "bx_shim.h"', SUPPORT, 'int bx_exc;',
         '/* decay0_divdif as bx2c renders it: CERNLIB E105 is not part of the reference file; same code on both sides */', divdif,
         'double divdif_(double *f, double *a, int *nn, double *x, int *mm) { return decay0_divdif(f, a, *nn, *x, *mm); }',
         'double ref_divdif(double *f, double *a, int nn, double x, int mm) { return decay0_divdif(f, a, nn, x, mm); }']
    C += sorted(glob.values())
    C += protos
    C += defs
    # driver
    D = ['extern void vpgetev_(int *n, int *codes, double *pm, double *pt); extern void vpreset_(void);']
    for n, kind in drive:
        D.append('extern void %s_(%s);' % (n.lower(), 'double *, double *' if kind == 'nuclide' else 'int *'))
    fes = sorted(n for n in ok if re.match(r'^fe\d+_mod\d+$', n))
    for n in fes:
        D.append('extern double %s_(double *);' % n)
    D.append('extern void vpsetbb_(double *, double *, double *, double *, double *, double *, int *, double *, double *, double *, double *, double *, double *, double *);')
    D.append('struct fe { const char *name; double (*f)(double *); double (*c)(double); };')
    D.append('static struct fe FE[] = {\n  %s\n};' % ',\n  '.join('{"%s", %s_, ref_%s}' % (n, n, n) for n in fes))
    for g_ in ['cm_helpbb_%d' % i for i in range(4)] + ['cm_denrange_%d' % i for i in range(3)] + ['cm_eta_nme_%d' % i for i in range(7)]:
        if g_ not in glob:
            C.append(('int %s;' if g_ == 'cm_denrange_2' else 'double %s;') % g_)
    D.append('struct rt { const char *name; int kind; void (*f)(); void (*c)(); int nlev; int lev[40]; };')
    rows = []
    for n, kind in drive:
        if kind == 'nuclide':
            rows.append('{"%s", 0, (void (*)())%s_, (void (*)())ref_%s, 0, {0}}' % (n, n.lower(), n))
        else:
            lv = sorted(set(int(x) for x in re.findall(r'levelkev\s*\.eq\.\s*(\d+)', '\n'.join(t for l, t, k in prog.units[n].stmts))))
            rows.append('{"%s", 1, (void (*)())%s_, (void (*)())ref_%s, %d, {%s}}' % (n, n.lower(), n, len(lv), ', '.join(str(v) for v in lv) or '0'))
    D.append('static struct rt RT[] = {\n  %s\n};' % ',\n  '.join(rows))
    D.append(r'''
static int close_(double a, double b) { double d = fabs(a - b), s = fabs(a) > fabs(b) ? fabs(a) : fabs(b); return d <= 1e-9 * (s + 1e-30) || d <= 1e-12 || (a != a && b != b); }
int main(int argc, char **argv)
{
  int seeds = argc > 1 ? atoi(argv[1]) : 40;
  int nrt = sizeof(RT) / sizeof(RT[0]);
  int bad = 0; long runs = 0, parts = 0;
  for (int r = 0; r < nrt; r++) {
    int nl = RT[r].kind ? RT[r].nlev : 1; int rb = 0;
    for (int li = 0; li < nl; li++) for (int s = 1; s <= seeds; s++) {
      int nF, cF[100]; double pF[300], tF[100], tdF = 0, tdC = 0; unsigned long dF, dC;
      double tc = (s % 3) * 0.5; int lev = RT[r].lev[li];
      vp_seed((unsigned long long)s * 1000003ULL + r); vpreset_();
      if (RT[r].kind == 0) ((void (*)(double *, double *))RT[r].f)(&tc, &tdF); else ((void (*)(int *))RT[r].f)(&lev);
      dF = vp_ndraw; vpgetev_(&nF, cF, pF, tF);
      vp_seed((unsigned long long)s * 1000003ULL + r); vp_creset();
      if (RT[r].kind == 0) ((void (*)(double, double *))RT[r].c)(tc, &tdC); else ((void (*)(int))RT[r].c)(lev);
      dC = vp_ndraw; runs++;
      int ok = (nF == ref_ev_npfull) && (dF == dC) && close_(tdF, tdC);
      for (int i = 0; ok && i < nF && i < 100; i++) {
        parts++;
        if (cF[i] != vp_code[i + 1] || !close_(tF[i], vp_t[i + 1]) || !close_(pF[3 * i], vp_p[1][i + 1]) || !close_(pF[3 * i + 1], vp_p[2][i + 1]) || !close_(pF[3 * i + 2], vp_p[3][i + 1])) ok = 0;
      }
      if (!ok) { if (rb < 3) printf("DIFF %s level %d seed %d: particles %d/%d deviates %lu/%lu td %.17g/%.17g\n", RT[r].name, lev, s, nF, ref_ev_npfull, dF, dC, tdF, tdC); rb++; bad++; }
    }
    printf("ROUTINE %s %s\n", RT[r].name, rb ? "DIFFERS" : "agrees");
  }
  /* the double-beta integrands fe*_mod*: functions of one energy and of the closure commons */
  int nfe = sizeof(FE) / sizeof(FE[0]); long fev = 0, fenz = 0;
  for (int r = 0; r < nfe; r++) {
    int rb = 0;
    for (int cfg = 0; cfg < 6; cfg++) {
      double z = cfg % 2 ? -46.0 : 44.0, a = 100.0 + cfg, e0 = 1.0 + 0.55 * cfg, e1 = 0.05 + 0.13 * cfg, ds = 0.1 * cfg, df = e0 - 0.05 * cfg;
      int md = 4 + cfg; double c[7] = {0.9 + 0.01 * cfg, -0.3, 1.1, -0.35, 0.1 * cfg, 0.5 + 0.02 * cfg, 1.2};
      vpsetbb_(&z, &a, &e0, &e1, &ds, &df, &md, &c[0], &c[1], &c[2], &c[3], &c[4], &c[5], &c[6]);
      cm_helpbb_0 = z; cm_helpbb_1 = a; cm_helpbb_2 = e0; cm_helpbb_3 = e1; cm_denrange_0 = ds; cm_denrange_1 = df; cm_denrange_2 = md;
      cm_eta_nme_0 = c[0]; cm_eta_nme_1 = c[1]; cm_eta_nme_2 = c[2]; cm_eta_nme_3 = c[3]; cm_eta_nme_4 = c[4]; cm_eta_nme_5 = c[5]; cm_eta_nme_6 = c[6];
      for (int k = 1; k <= 40; k++) {
        double e = e0 * k / 37.0, ef = e; double vf = FE[r].f(&ef), vc = FE[r].c(e); fev++; if (vf == vf && vf != 0.0) fenz++;
        if (!close_(vf, vc)) { if (rb < 3) printf("DIFF %s cfg %d e=%.6f: %.17g / %.17g\n", FE[r].name, cfg, e, vf, vc); rb++; bad++; }
      }
    }
    printf("ROUTINE %s %s\n", FE[r].name, rb ? "DIFFERS" : "agrees");
  }
  printf("SUMMARY routines=%d runs=%ld particles=%ld integrand_values=%ld nonzero_finite_integrand_values=%ld differing_runs=%d\n", nrt + nfe, runs, parts, fev, fenz, bad);
  return bad ? 1 : 0;
}
''')
    open(os.path.join(WORK, 'refc.c'), 'w').write('\n\n'.join(C + D) + '\n')
    log = {}
    cmds = [['gcc', '-c', '-x', 'f77', '-std=legacy', '-w', '-O0', '-fdefault-real-8', '-fdefault-double-8', '-ffp-contract=off', '-fno-range-check', '-ffixed-line-length-none', '-fd-lines-as-comments', '-finit-local-zero', 'ref.for', '-o', 'ref_f.o'],
            ['gcc', '-c', '-std=gnu11', '-w', '-O0', '-ffp-contract=off', '-I', os.path.join(VERIF, 'shim'), 'refc.c', '-o', 'refc.o'],
            ['gcc', 'ref_f.o', 'refc.o', '-o', 'refcmp', '-lgfortran', '-lgsl', '-lgslcblas', '-lm']]
    for c in cmds:
        p = subprocess.run(c, cwd=WORK, capture_output=True, text=True)
        if p.returncode != 0:
            print(json.dumps({'status': 'build-failed', 'cmd': ' '.join(c), 'stderr': p.stderr[-3000:], 'translated': len(ok), 'failed': failed}, indent=1))
            return 2
    p = subprocess.run([os.path.join(WORK, 'refcmp'), str(seeds)], cwd=WORK, capture_output=True, text=True, timeout=3600)
    lines = p.stdout.split('\n')
    res = {'status': 'ran', 'exit': p.returncode, 'seeds_per_routine_and_level': seeds, 'units_translated': len(ok), 'units_not_translated': failed,
           'routines_compared': len(drive) + len(fes), 'agree': [l.split()[1] for l in lines if l.startswith('ROUTINE') and l.endswith('agrees')],
           'differ': [l.split()[1] for l in lines if l.startswith('ROUTINE') and l.endswith('DIFFERS')],
           'first_differences': [l for l in lines if l.startswith('DIFF')][:40], 'summary': [l for l in lines if l.startswith('SUMMARY')]}
    print(json.dumps(res, indent=1))
    return 0 if p.returncode == 0 else 1


if __name__ == '__main__':
    sys.exit(main())

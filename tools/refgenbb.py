#!/usr/bin/env python3
"""cross-check of f77c's per-nuclide rendering of GENBBsub's initialisation (the reference side of every C06 query)
against the reference compiled by gcc: for each of the 51 isotopes, every ilevel in -2..21 and every modebb in -1..22 the
compiled  GENBBsub(i2bbs=1, name, ilevel, modebb, istart=-1, ier)  and the natively compiled rendering
ref_genbbinit(ilevel, modebb, ...)  must agree on ier and, when accepted, on Qbb, Zdbb, Adbb, EK (the arguments GENBBsub
hands to bb) and levelE (common/enrange/).  bb itself is replaced by a recorder on the Fortran side (its initialisation
needs CERNLIB integrators).  This is an exhaustive run over the finite domain the C06 queries quantify over, for the
reference side only; JSON on stdout."""
import json
import os
import re
import subprocess
import sys
sys.path.insert(0, os.path.dirname(os.path.abspath(__file__)))
import bx2c
import extract
import f77c
import native
import refnative

VERIF = extract.VERIF
WORK = os.path.join(VERIF, 'build', 'refgenbb')

FACC = '''
      subroutine vpgetlev(l)
      character chdspin*4
      common/enrange/ebb1,ebb2,toallevents,levelE,chdspin
      l=levelE
      return
      end
'''

SUP = r'''
#include <stdio.h>
#include <string.h>
#include <stdlib.h>
#include <math.h>
double rnd1_(double *d) { return 0.5; }
double rndm_(double *d) { return 0.5; }
void datime_(int *a, int *b) { *a = 0; *b = 0; }
double _Complex cgamma_(double _Complex *z) { return 1.0; }
double divdif_(void) { abort(); } double gauss_(void) { abort(); } double dgmlt1_(void) { abort(); } double dgmlt2_(void) { abort(); }
/* recorder in place of the reference's bb (stripped from the Fortran text) */
int vp_bb_called; int vp_bb_mode; double vp_bb[5];
void bb_(int *modebb, double *qbb, double *edlevel, double *ek, double *zdbb, double *adbb, int *istartbb)
{ vp_bb_called++; vp_bb_mode = *modebb; vp_bb[0] = *qbb; vp_bb[1] = *edlevel; vp_bb[2] = *ek; vp_bb[3] = *zdbb; vp_bb[4] = *adbb; }
extern void genbbsub_(int *i2bbs, char *chn, int *ilevel, int *modebb, int *istart, int *ier, size_t len);
extern void vpgetlev_(int *l);
'''


def strip_unit(text, name):
    out, skip = [], False
    for ln in text.split('\n'):
        code = ln[6:] if len(ln) > 6 and ln[:1] not in 'cC*!' else ''
        if re.match(r'^\s*subroutine\s+%s\s*\(' % name, code, re.I):
            skip = True
        if not skip:
            out.append(ln)
        elif re.match(r'^\s*end\s*$', code, re.I):
            skip = False
    return '\n'.join(out)


def main():
    os.makedirs(WORK, exist_ok=True)
    db = extract.extract()
    T = db['types']
    prog = f77c.Program(refnative.REF)
    bkg, dbd = native.catalogues()
    text = refnative.strip_programs(open(refnative.REF, errors='replace').read())
    open(os.path.join(WORK, 'ref.for'), 'w').write(strip_unit(text, 'bb') + refnative.ACCESSORS + FACC)
    pr = bx2c.Printer(T, bx2c.Opts(uf=False))
    C = ['#define BX_NATIVE 1', '#include "bx_shim.h"', SUP, 'int bx_exc;']
    rows = []
    failed = {}
    for name in dbd:
        try:
            fr = f77c.genbb_init_function(prog, name)
        except (f77c.Unsupported, bx2c.Unsupported) as e:
            failed[name] = str(e)[:200]
            continue
        fn = 'ref_genbbinit_' + re.sub(r'\W', '_', name)
        sig = pr.signature(fr, name=fn)
        L = [sig, '{']
        consts = getattr(fr, 'commons', {})
        for (ct, nm, _) in fr.locals:
            if nm in consts and prog.common_init.get(nm) is not None:
                vals = prog.common_init[nm]
                if '[' in ct:
                    L.append('  static const %s = {%s};' % (T.decl(ct, nm), ', '.join(refnative.lit(v) for v in vals)))
                else:
                    L.append('  const %s = %s;' % (T.decl(ct, nm), refnative.lit(vals[0])))
            else:
                L.append('  %s%s;' % (T.decl(ct, nm), ' = {0}' if '[' in ct else ' = 0'))
        pr.fn = fr
        pr.lines = []
        pr.stmt(fr.body, '  ')
        L += pr.lines
        L.append('}')
        C.append('\n'.join(L))
        rows.append('  {"%s", %s}' % (name, fn))
    C.append('struct row { const char *name; void (*c)(int, int, int *, double *, double *, double *, double *, int *, int *); };')
    C.append('static struct row R[] = {\n%s\n};' % ',\n'.join(rows))
    C.append(r'''
static int same(double a, double b) { double d = fabs(a - b), s = fabs(a) > fabs(b) ? fabs(a) : fabs(b); return d <= 1e-12 * s || d == 0; }
int main(void)
{
  int n = sizeof(R) / sizeof(R[0]), bad = 0; long cfg = 0, acc = 0;
  FILE *out = fdopen(3, "w"); if (!out) out = stderr;
  for (int r = 0; r < n; r++) {
    int rb = 0;
    for (int il = -2; il <= 21; il++) for (int m = -1; m <= 22; m++) {
      char nm[17]; memset(nm, ' ', 16); nm[16] = 0; memcpy(nm, R[r].name, strlen(R[r].name));
      int i2 = 1, ilevel = il, modebb = m, istart = -1, ierF = 0, levF = 0;
      vp_bb_called = 0;
      genbbsub_(&i2, nm, &ilevel, &modebb, &istart, &ierF, (size_t)16);
      vpgetlev_(&levF);
      int ierC = 0, levC = 0, it02 = 0; double q = 0, z = 0, a = 0, ek = 0;
      R[r].c(il, m, &ierC, &q, &z, &a, &ek, &levC, &it02);
      cfg++;
      int ok = (ierF != 0) == (ierC != 0);
      if (ok && ierF == 0) {
        acc++;
        ok = vp_bb_called == 1 && vp_bb_mode == m && same(vp_bb[0], q) && same(vp_bb[2], ek) && same(vp_bb[3], z) && same(vp_bb[4], a) && levF == levC && same(vp_bb[1], levC / 1000.0);
      }
      if (!ok) { if (rb < 3) fprintf(out, "DIFF %s ilevel %d modebb %d: ier %d/%d Q %.6f/%.6f Z %.1f/%.1f A %.1f/%.1f EK %.6f/%.6f levelE %d/%d bb_called %d\n", R[r].name, il, m, ierF, ierC, vp_bb[0], q, vp_bb[3], z, vp_bb[4], a, vp_bb[2], ek, levF, levC, vp_bb_called); rb++; bad++; }
    }
    fprintf(out, "NUCLIDE %s %s\n", R[r].name, rb ? "DIFFERS" : "agrees");
  }
  fprintf(out, "SUMMARY nuclides=%d configurations=%ld accepted=%ld differing=%d\n", n, cfg, acc, bad);
  return bad ? 1 : 0;
}
''')
    open(os.path.join(WORK, 'refgenbb.c'), 'w').write('\n\n'.join(C) + '\n')
    cmds = [['gcc', '-c', '-x', 'f77', '-std=legacy', '-w', '-O0', '-fdefault-real-8', '-fdefault-double-8', '-ffp-contract=off', '-fno-range-check', '-ffixed-line-length-none', '-fd-lines-as-comments', '-finit-local-zero', 'ref.for', '-o', 'ref_f.o'],
            ['gcc', '-c', '-std=gnu11', '-w', '-O0', '-ffp-contract=off', '-I', os.path.join(VERIF, 'shim'), 'refgenbb.c', '-o', 'refgenbb.o'],
            ['gcc', 'ref_f.o', 'refgenbb.o', '-o', 'refgenbb', '-lgfortran', '-lm']]
    for c in cmds:
        p = subprocess.run(c, cwd=WORK, capture_output=True, text=True)
        if p.returncode != 0:
            print(json.dumps({'status': 'build-failed', 'cmd': ' '.join(c)[:200], 'stderr': p.stderr[-3000:], 'failed': failed}, indent=1))
            return 2
    res = os.path.join(WORK, 'result.txt')
    p = subprocess.run('./refgenbb 3> result.txt > /dev/null 2>&1', shell=True, cwd=WORK, timeout=3600)
    lines = open(res).read().split('\n')
    out = {'status': 'ran', 'exit': p.returncode, 'nuclides_rendered': len(rows), 'not_rendered': failed,
           'agree': [l.split()[1] for l in lines if l.startswith('NUCLIDE') and l.endswith('agrees')],
           'differ': [l.split()[1] for l in lines if l.startswith('NUCLIDE') and l.endswith('DIFFERS')],
           'first_differences': [l for l in lines if l.startswith('DIFF')][:40], 'summary': [l for l in lines if l.startswith('SUMMARY')]}
    print(json.dumps(out, indent=1))
    return 0 if p.returncode == 0 else 1


if __name__ == '__main__':
    sys.exit(main())

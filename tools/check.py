#!/usr/bin/env python3
"""check.py -- entry point:  ./check setup | ./check <Cxx> quick|thorough | ./check replay <file>

Exit codes: 0 every obligation proved (known findings printed as KNOWN-FINDING lines)
            1 at least one refuted obligation not listed in known_findings.txt (VIOLATION lines)
            2 infrastructure problem / undecided obligation (broken check, never an alarm)
"""
import subprocess, os, sys, json, time, hashlib, pickle, re, subprocess, traceback, collections, random
from concurrent.futures import ThreadPoolExecutor
sys.path.insert(0, os.path.dirname(os.path.abspath(__file__)))
import bx2c, extract, oblig, l3, cbmcrun, segments, native

VERIF = extract.VERIF
BUILD = os.path.join(VERIF, 'build')
QDIR = os.path.join(BUILD, 'q')
RDIR = os.path.join(BUILD, 'results')
EVID = os.path.join(VERIF, 'evidence')
REPLAYS = os.path.join(VERIF, 'replays')
JOBS = int(os.environ.get('VERIF_JOBS', '16'))

TRUSTED_BASE = [
    'bx2c: AST-driven C rendering of the C++ sources (rule table in DESIGN 2.1); checked per run by the native bit-for-bit self-check, not proved',
    'shim/bx_shim*.h: std::vector<particle> (push_back may reallocate), std::string views, i_random = any double in (0,1)',
    'shim/bx_models.h: libm as uninterpreted functions + range axioms (log sign/range, sqrt>=0, |cos|,|sin|<=1, acos in [0,pi], exp>=0)',
    'generator-made assume/guarantee stubs (assert requires; havoc assigns; assume ensures) for L3-L5 callers',
    'label-machine rewrite: F == pc=0; while(pc!=EXIT) pc=F_seg(pc)',
    'CBMC 6.11.0, goto-instrument --dfcc, CaDiCaL/kissat',
]


def log(*a):
    print(*a, file=sys.stderr, flush=True)


# ----------------------------------------------------------------------------------------------
# query execution with a content-addressed result cache
# ----------------------------------------------------------------------------------------------

class Query:
    def __init__(self, qid, ctext, entry='harness', checks=None, timeout=600, mem_gb=8, meta=None, kind='cbmc', dfcc=None,
                 defines=(), extra=()):
        self.qid = qid
        self.c = ctext
        self.entry = entry
        self.checks = cbmcrun.DEFAULT_CHECKS if checks is None else checks
        self.timeout = timeout
        self.mem_gb = mem_gb
        self.meta = meta or {}
        self.kind = kind
        self.dfcc = dfcc
        self.defines = tuple(defines)
        self.extra = tuple(extra)

    def key(self):
        h = hashlib.sha256()
        h.update(self.c.encode())
        h.update(repr((self.entry, self.checks, self.kind, self.dfcc, self.defines, self.extra)).encode())
        for f in ('bx_shim.h', 'bx_shim_fn.h', 'bx_models.h'):
            h.update(open(os.path.join(VERIF, 'shim', f), 'rb').read())
        return h.hexdigest()[:24]


def run_query(q):
    os.makedirs(QDIR, exist_ok=True)
    os.makedirs(RDIR, exist_ok=True)
    key = q.key()
    rp = os.path.join(RDIR, key + '.json')
    if os.path.exists(rp) and not os.environ.get('VERIF_NOCACHE'):
        try:
            r = json.load(open(rp))
            r['cached'] = True
            return r
        except Exception:
            pass
    cpath = os.path.join(QDIR, re.sub(r'[^A-Za-z0-9_.-]', '_', q.qid) + '.' + key[:8] + '.c')
    open(cpath, 'w').write(q.c)
    if q.kind == 'cbmc':
        r = cbmcrun.run_cbmc(cpath, q.entry, defines=q.defines, checks=q.checks, timeout=q.timeout, mem_gb=q.mem_gb, extra=q.extra)
        if r['status'] == 'undecided' and 'timeout' in r.get('why', '') and not str(q.qid).startswith('bbk/lemma/'):
            # second back end before giving up (not for the long IEEE lemmas: cadical is 7x faster than the others on them)
            r2 = cbmcrun.run_cbmc(cpath, q.entry, defines=q.defines, checks=q.checks, timeout=q.timeout, mem_gb=q.mem_gb,
                                  extra=q.extra, solver=('--external-sat-solver', 'kissat'))
            r2['wall_s'] += r['wall_s']
            r2['backend'] = 'kissat (after cadical timeout)'
            r = r2
    else:
        r = cbmcrun.run_dfcc(cpath, q.entry, defines=q.defines, checks=q.checks, timeout=q.timeout, mem_gb=q.mem_gb,
                             extra=q.extra, tag=key[:10], **q.dfcc)
    r.setdefault('backend', 'cadical')
    r['qid'] = q.qid
    r['cfile'] = cpath
    # keep traces only for failed assertions, trimmed
    if r.get('props'):
        for p in r['props']:
            if p.get('trace'):
                p['trace'] = trim_trace(p['trace'])
    if r['status'] == 'decided':
        tmp = rp + '.tmp%d' % os.getpid()
        json.dump(r, open(tmp, 'w'))
        os.rename(tmp, rp)
    r['cached'] = False
    return r


def trim_trace(tr):
    out = []
    for st in tr:
        t = st.get('stepType')
        if t == 'assignment':
            v = st.get('value', {})
            out.append({'t': 'a', 'lhs': st.get('lhs'), 'v': v.get('data'), 'bin': v.get('binary'),
                        'fn': st.get('sourceLocation', {}).get('function'), 'ln': st.get('sourceLocation', {}).get('line')})
        elif t == 'function-call':
            out.append({'t': 'c', 'fn': st.get('function', {}).get('displayName'), 'ln': st.get('sourceLocation', {}).get('line'),
                        'from': st.get('sourceLocation', {}).get('function')})
        elif t == 'failure':
            out.append({'t': 'f', 'reason': st.get('reason'), 'ln': st.get('sourceLocation', {}).get('line'),
                        'fn': st.get('sourceLocation', {}).get('function')})
    return out[-4000:]


def bin_to_double(b):
    import struct
    if not b or len(b) != 64:
        return None
    return struct.unpack('>d', int(b, 2).to_bytes(8, 'big'))[0]


def deviates_from_trace(tr):
    out = []
    for st in tr or []:
        if st.get('t') == 'a' and st.get('fn') == 'bx_draw' and st.get('lhs') == 'bx_u':
            d = bin_to_double(st.get('bin'))
            # the declaration of bx_u is traced too (arbitrary bits); the draw is the value that satisfies 0 < u < 1
            if d is not None and 0.0 < d < 1.0:
                out.append(d)
    return out


# ----------------------------------------------------------------------------------------------
# classification of CBMC properties
# ----------------------------------------------------------------------------------------------

def classify(p, what, q=None):
    """-> (property id or None, kind)"""
    d = p.get('desc') or ''
    n = p.get('name') or ''
    if what == 'kernel':
        return classify_kernel(p, q)
    if d.startswith('canary'):
        return None, 'canary'
    if d.startswith('C03'):
        return 'C03', 'post'
    if d.startswith('C04'):
        return 'C04', 'post'
    if d.startswith('C05'):
        return 'C05', 'post'
    if d.startswith('C06'):
        return 'C06', 'post'
    if d.startswith('C07'):
        return 'C07', 'post'
    if d.startswith('C08'):
        return 'C08', 'post'
    if d.startswith('C10'):
        return 'C10', 'post'
    if d.startswith('C16'):
        return 'C16', 'post'
    if d.startswith('C01'):
        return 'C01', 'post'
    if d.startswith('C02'):
        return 'C02', 'post'
    if d.startswith('pre '):
        return 'C04', 'callsite'
    if d.startswith('invariant') or d.startswith('label machine'):
        return {'c04': 'C04', 'c03': 'C03'}.get(what, 'C04'), 'invariant'
    # CBMC's instrumented checks
    return 'C08', 'safety'


def classify_kernel(p, q):
    """DFCC obligations of an enforced kernel contract: map each to the BxDecay0 property its clause serves"""
    n = p.get('name') or ''
    d = p.get('desc') or ''
    ln = str((p.get('loc') or {}).get('line') or '')
    txt = (q.meta.get('linemap') or {}).get(ln, '') if q else ''
    if '.postcondition.' in n or '.precondition.' in n:
        p['desc'] = d.replace('Check ', '') + ' :: ' + txt
        if re.search(r'g_evis|g_enom', txt):
            return 'C03', 'post'
        return 'C04', 'post'
    if '.assigns.' in n or 'is assignable' in d:
        return 'C07', 'frame'
    if 'unwinding assertion' in d:
        return 'C04', 'unwind'
    return 'C08', 'safety'


def okey(qid, p):
    """stable obligation key: query id + description (CBMC's counters are not stable across edits)"""
    d = re.sub(r'\s+', ' ', p.get('desc') or '')
    return '%s :: %s' % (qid, d)


# ----------------------------------------------------------------------------------------------
# known findings
# ----------------------------------------------------------------------------------------------

def load_known():
    known, fixed = [], []
    p = os.path.join(VERIF, 'known_findings.txt')
    if os.path.exists(p):
        for ln in open(p):
            s = ln.strip()
            if not s or s.startswith('#'):
                continue
            m = re.match(r'^known:\s+property=(\S+)\s+obligation=(\S+)(?:\s+site=(\S+))?\s+::\s+(.*?)\s+--\s+(.*)$', s)
            if m:
                known.append({'property': m.group(1), 'qid': m.group(2), 'site': m.group(3), 'desc': m.group(4), 'text': m.group(5)})
                continue
            if s.startswith('known:'):
                raise ValueError('known_findings.txt: cannot parse: ' + s)
            if s.startswith('fixed:'):
                fixed.append(s)
    return known, fixed


def match_known(known, prop, qid, desc):
    for k in known:
        if k['property'] == prop and k['qid'] == qid and (k['desc'] == desc or (k['desc'].endswith('*') and desc.startswith(k['desc'][:-1]))):
            return k
    return None


# ----------------------------------------------------------------------------------------------
# query sets
# ----------------------------------------------------------------------------------------------

def load_db():
    db = extract.extract()
    os.makedirs(os.path.join(BUILD, 'cxx'), exist_ok=True)
    return db


def l3_queries(db, contracts, consts, what, only=None, known=()):
    qs = []
    skipped = []
    if os.environ.get('VERIF_ONLY'):
        only = set(os.environ['VERIF_ONLY'].split(','))
    for name, kind in sorted(l3.l3_routines(db).items()):
        if only and name not in only:
            continue
        if what == 'c03' and kind != 'low':
            continue
        f = db['funcs'][name]
        try:
            body = segments.lower_loops(f.body)
            cuts = segments.backward_targets(body)
            chk = cbmcrun.DEFAULT_CHECKS if what == 'c04' else []
            if cuts:
                for q in l3.build_segment_queries(db, contracts, consts, name, kind, cuts, what):
                    qid = 'l3/%s/%s/seg@%s' % (name, what, q['meta']['cut'] or 'entry')
                    qs.append(Query(qid, q['c'], checks=chk, meta=q['meta'], timeout=900, mem_gb=20 if q['meta']['mode'] == 'vec' else 8))
            else:
                qid = 'l3/%s/%s' % (name, what)
                ks = [k['site'] for k in known if k['qid'] == qid and k.get('site')]
                q = l3.build_query(db, contracts, consts, name, kind, what, known_sites=ks)
                qs.append(Query(qid, q['c'], checks=chk, meta=q['meta'], timeout=900))
        except bx2c.Unsupported as e:
            skipped.append((name, str(e)))
    return qs, skipped


def kernel_queries(db, contracts, consts):
    import kernels
    qs = []
    skipped = []
    for name in sorted(kernels.kernel_functions(contracts)):
        if name not in db['funcs']:
            skipped.append((name, 'contract for a function that was not rendered'))
            continue
        if name in kernels.ASSUMED:
            skipped.append((name, 'contract ASSUMED, not enforced: ' + kernels.ASSUMED[name]))
            continue
        if name in ('decay0_beta', 'decay0_beta1', 'decay0_beta2', 'decay0_beta_1fu'):
            # wrapper against the worker's contract + the worker's rejection loop through the label machine
            import betak
            try:
                q = betak.build_wrapper_query(db, contracts, consts, name)
                qs.append(Query('kernel/%s' % name, q['c'], meta=q['meta'], timeout=900))
                for wq in betak.build_worker_queries(db, contracts, consts, name):
                    qs.append(Query('kernel/%s/seg@%s' % (wq['meta']['function'], wq['meta']['cut'] or 'entry'), wq['c'], meta=wq['meta'], timeout=900,
                                    checks=['--no-standard-checks', '--bounds-check', '--pointer-check', '--conversion-check', '--div-by-zero-check', '--signed-overflow-check']))
            except bx2c.Unsupported as e:
                skipped.append((name, 'NOT COVERED: ' + str(e)[:300]))
            continue
        if name in kernels.STUB_ENFORCE:
            try:
                q = kernels.build_stub_enforce_query(db, contracts, consts, name)
                qs.append(Query('kernel/%s' % name, q['c'], meta=q['meta'], timeout=900, extra=tuple(kernels.STUB_ENFORCE[name])))
            except bx2c.Unsupported as e:
                skipped.append((name, str(e)))
            continue
        try:
            q = kernels.build_kernel_query(db, contracts, consts, name)
        except bx2c.Unsupported as e:
            skipped.append((name, str(e)))
            continue
        lm = {}
        for i, ln in enumerate(q['c'].split('\n')):
            if ln.startswith('__CPROVER_ensures(') or ln.startswith('__CPROVER_requires('):
                lm[str(i + 1)] = ln
        q['meta']['linemap'] = lm
        qs.append(Query('kernel/%s' % name, q['c'], kind='dfcc', dfcc=q['dfcc'], meta=q['meta'], timeout=1500, mem_gb=16,
                        extra=('--object-bits', '12') + tuple(kernels.EXTRA.get(name, ()))))
    return qs, skipped


REF_FOR = os.path.join(bx2c.REPO, 'resources/code/decay0/decay0_2020-04-20.for')


def bbk_queries(db, prop, tier):
    """decay0_bb under its own contract (contracts/bb.contract): one query per cut point and legacy mode; the arithmetic lemmas
    of the energy budget are separate program-free queries (C03 only)"""
    import bbk
    spec = os.path.join(VERIF, 'contracts', 'bb.contract')
    qs, skipped = [], []
    for k, cname, mode in bbk.plan():
        try:
            q = bbk.build(db, spec, k, mode)
        except bx2c.Unsupported as e:
            skipped.append(('decay0_bb %s mode %s' % (cname, mode), 'NOT COVERED: ' + str(e)[:300]))
            continue
        qs.append(Query('bbk/%s/mode%s' % (cname, mode if isinstance(mode, int) else 'M2'), q['c'], checks=['--no-standard-checks', '--bounds-check', '--pointer-check', '--conversion-check', '--div-by-zero-check', '--signed-overflow-check'],
                        meta=q['meta'], timeout=2400, mem_gb=10))
    if prop == 'C03':
        for name in sorted(bbk.parse_spec(spec)['lemma']):
            if tier != 'thorough' and name in ('W2', 'W20'):
                # 23 min (W2) and > 50 min (W20) of CaDiCaL: thorough tier only; the quick tier lists them as assumed
                skipped.append(('bbk/lemma/%s' % name, 'ASSUMED in the quick tier (IEEE add/sub lemma, decided or attempted in the thorough tier only)'))
                continue
            q = bbk.build_lemma(spec, name)
            qq = Query('bbk/lemma/%s' % name, q['c'], checks=['--no-standard-checks'], meta=q['meta'], timeout=2400 if tier == 'thorough' else 1500, mem_gb=8)
            qq.meta['soft'] = True
            qs.append(qq)
    return qs, skipped


def rel_queries(db, prop):
    """relational obligations against the Fortran reference: C01 = published background nuclides, C02 = everything
    that serves double-beta events (the *low cascades and the alpha-chain daughters)"""
    import rel, f77c
    prog = f77c.Program(REF_FOR)
    bkg, dbd = native.catalogues()
    bnames = set()
    for n in bkg:
        for part in n.split('+'):
            bnames.add(part)
    qs, skipped = [], []
    only = set(os.environ['VERIF_ONLY'].split(',')) if os.environ.get('VERIF_ONLY') else None
    KERNELS = ['decay0_gamma', 'decay0_electron', 'decay0_positron', 'decay0_alpha', 'decay0_pair', 'decay0_nucltransK',
               'decay0_nucltransKL', 'decay0_nucltransKLM', 'decay0_nucltransKLM_Pb', 'PbAtShell']
    if prop == 'C01' and not only:
        try:
            q = rel.build_leaf_query(db, prog, propid='C01')
            qs.append(Query('rel/leaf', q['c'], checks=['--no-standard-checks', '--bounds-check', '--pointer-check'], meta=q['meta'], timeout=600))
        except (bx2c.Unsupported, f77c.Unsupported) as e:
            skipped.append(('randomize_particle', 'NOT COVERED: ' + str(e)[:300]))
    if prop == 'C01' and not only:
        import relk
        jobs = [('rel/k/%s' % n, (lambda n=n: relk.build(db, prog, n, propid='C01'))) for n in sorted(relk.PAIRS)]
        jobs += [('rel/wrapper/%s' % n, (lambda n=n: relk.build_wrapper_query(db, n, propid='C01'))) for n in sorted(relk.WRAPPERS)]
        jobs += [('rel/k/decay0_fermi', lambda: relk.build_fermi(db, prog, propid='C01')), ('rel/k/decay0_tgold', lambda: relk.build_tgold(db, prog, propid='C01')),
                 ('rel/table/plog69', lambda: relk.build_table_query(db, prog, 'BJ69__plog69', 'plog69', propid='C01'))]
        for qid, mk in jobs:
            try:
                q = mk()
                q['meta']['what'] = 'rel'
                qs.append(Query(qid, q['c'], checks=['--no-standard-checks', '--bounds-check', '--pointer-check'], meta=q['meta'], timeout=600))
            except (bx2c.Unsupported, f77c.Unsupported, KeyError) as e:
                skipped.append((qid, 'NOT COVERED: ' + str(e)[:300]))
    if prop == 'C02' and not only:
        import relk
        for n in sorted(relk._fe_pairs()):
            try:
                q = relk.build(db, prog, n, propid='C02')
                q['meta']['what'] = 'rel'
                qs.append(Query('rel/k/%s' % n, q['c'], checks=['--no-standard-checks', '--bounds-check', '--pointer-check'], meta=q['meta'], timeout=600))
            except (bx2c.Unsupported, f77c.Unsupported, KeyError) as e:
                skipped.append((n, 'NOT COVERED: ' + str(e)[:300]))
        # integrand adaptors of the two-electron energy integral
        for which, md in [(1, None)] + [(2, m_) for m_ in relk.BB_M2] + [(2, 'other')]:
            qid = 'rel/k/decay0_dshelp%d' % which + ('' if md is None else '/mode%s' % md)
            try:
                q = relk.build_dshelp(db, prog, which, propid='C02', mode=md)
                q['meta']['what'] = 'rel'
                qs.append(Query(qid, q['c'], checks=['--no-standard-checks', '--bounds-check', '--pointer-check'], meta=q['meta'], timeout=900, mem_gb=12))
            except (bx2c.Unsupported, f77c.Unsupported, KeyError) as e:
                skipped.append((qid, 'NOT COVERED: ' + str(e)[:300]))
        # decay0_bb against the reference's bb: one query per cut point and legacy mode (the mode is a constant in each)
        for k, cname, mode in relk.bb_plan():
            try:
                q = relk.build_bb(db, prog, propid='C02', only=range(k, k + 1), mode=mode)
                q['meta']['what'] = 'rel'
                q['meta']['mode'] = mode
                qs.append(Query('rel/bb/%s/mode%d' % (cname, mode), q['c'], checks=['--no-standard-checks', '--bounds-check'], meta=q['meta'], timeout=1500, mem_gb=10))
            except (bx2c.Unsupported, f77c.Unsupported, KeyError) as e:
                skipped.append(('decay0_bb %s mode %d' % (cname, mode), 'NOT COVERED: ' + str(e)[:300]))
    cands = sorted(l3.l3_routines(db).items()) + [(k, 'kernel') for k in KERNELS if k in db['funcs']]
    for name, kind in cands:
        if only and name not in only:
            continue
        is_bkg = name in bnames or name in ('Sc48', 'Nb96', 'Po212') or kind == 'kernel'
        if kind == 'kernel' and prop == 'C02' and name != 'PbAtShell':
            is_bkg = False   # the emission kernels serve both properties
        if (prop == 'C01') != is_bkg:
            continue
        if rel.ref_name_for(name, prog) is None:
            skipped.append((name, 'no counterpart in the reference (BxDecay0-only routine): outside the property'))
            continue
        try:
            pq = rel.build_pair_queries(db, prog, name, propid=prop)
        except (bx2c.Unsupported, f77c.Unsupported) as e:
            skipped.append((name, 'NOT COVERED: ' + str(e)[:300]))
            continue
        for q in pq:
            q['meta']['what'] = 'rel'
            ch = q['meta'].get('chunk')
            qid = 'rel/%s' % name + ('' if not ch else '/cuts%d-%d' % (ch[0], ch[1]))
            qs.append(Query(qid, q['c'], checks=['--no-standard-checks', '--bounds-check'], meta=q['meta'], timeout=900, mem_gb=10))
    return qs, skipped


def genbb_queries(db, prop, known):
    import genbb, f77c
    qs, skipped = [], []
    bkg, dbd = native.catalogues()
    only = set(os.environ['VERIF_ONLY'].split(',')) if os.environ.get('VERIF_ONLY') else None
    if prop == 'C06':
        prog = f77c.Program(REF_FOR)
        lv = genbb.readme_levels()
        names = list(dbd) + ['Xx99', 'Ca4', 'Po210', 'Nd15']
        for name in names:
            if only and name not in only:
                continue
            qid = 'genbbsub/c06/%s' % name
            kw = sorted({k['site'] for k in known if k['qid'] == qid and k.get('site') and k['property'] == 'C06'})
            kw7 = sorted({k['site'] for k in known if k['qid'] == qid and k.get('site') and k['property'] == 'C07'})
            try:
                q = genbb.build_c06_query(db, prog, name, lv.get(name), known_where=kw, known_where7=kw7)
            except (bx2c.Unsupported, f77c.Unsupported) as e:
                skipped.append((name, 'NOT COVERED: ' + str(e)[:300]))
                continue
            qs.append(Query(qid, q['c'], checks=['--no-standard-checks', '--bounds-check', '--pointer-check'], meta=q['meta'], timeout=900, mem_gb=20, extra=('--object-bits', '12')))
    else:
        ids = {}
        for name in bkg:
            try:
                genbb.build_c05_query(db, name, ids)
            except Exception:
                pass
        for name in bkg:
            if only and name not in only:
                continue
            try:
                q = genbb.build_c05_query(db, name, ids)
            except bx2c.Unsupported as e:
                skipped.append((name, 'NOT COVERED: ' + str(e)[:300]))
                continue
            qs.append(Query('genbbsub/c05/%s' % name, q['c'], checks=['--no-standard-checks', '--bounds-check', '--pointer-check'],
                            meta=q['meta'], timeout=600, extra=('--unwind', '20', '--unwinding-assertions', '--object-bits', '12')))
        # double-beta names: primary process + daughter cascade (+ documented alpha chain); C03 tie level table <-> cascade
        rd = genbb.readme_dbd()
        ids2 = {}
        for pass_ in (0, 1):
            for name in dbd:
                if only and name not in only:
                    continue
                daughter, chain = rd.get(name, (None, None))
                try:
                    q = genbb.build_c05_dbd_query(db, name, daughter, chain, ids2)
                except (bx2c.Unsupported, KeyError, TypeError) as e:
                    if pass_ == 1:
                        skipped.append((name, 'NOT COVERED: ' + str(e)[:300]))
                    continue
                if pass_ == 1:
                    q['meta']['what'] = 'c05'
                    qs.append(Query('genbbsub/c05dbd/%s' % name, q['c'], checks=['--no-standard-checks', '--bounds-check', '--pointer-check'],
                                    meta=q['meta'], timeout=900, mem_gb=20, extra=('--unwind', '20', '--unwinding-assertions', '--object-bits', '12')))
    return qs, skipped


def catalogue_obligations(db):
    """C05 static facts: README lists, resource list files and the names genbbsub tests are the same sets.
    Returns list of (description, ok, detail) -- decided by set comparison on data read at run time (supporting static
    facts, not CBMC obligations; reported separately in the evidence)."""
    import genbb
    bkg, dbd = native.catalogues()
    rb, rd = genbb.readme_names()
    lits = genbb.dispatch_literals(db)
    out = []
    def same(readme, lis):
        # a README entry is "``short``" or "``short`` (for ``long``)"; the list file carries one of the two spellings
        diff = [n for n in lis if sum(1 for s_, l_ in readme if n in (s_, l_)) != 1]
        diff += [l_ for s_, l_ in readme if sum(1 for n in lis if n in (s_, l_)) != 1]
        return diff
    d1 = same(rb, bkg)
    d2 = same(rd, dbd)
    out.append(('README background list == background_isotopes.lis', not d1, d1))
    out.append(('README double-beta list == dbd_isotopes.lis', not d2, d2))
    pub = set(dbd) | set(bkg)
    heads = {n.split('+')[0] for n in pub}
    unknown = sorted(l for l in set(lits) if not any(h.startswith(l) or l.startswith(h) for h in heads))
    out.append(('every name tested by genbbsub is a published name', not unknown, unknown))
    missing = sorted(h for h in heads if not any(h.startswith(l) for l in set(lits)))
    out.append(('every published name is tested by genbbsub', not missing, missing))
    rdd = genbb.readme_dbd()
    nod = sorted('%s -> %s' % (k, v[0]) for k, v in rdd.items() if not v[1] and (v[0] is None or (v[0] + 'low') not in db['funcs']))
    out.append(('the daughter nuclide README Appendix 1 gives for each double-beta isotope has a cascade routine', not nod, nod))
    return out


def evis_queries(db, contracts, consts):
    """booked-energy lemmas (float tolerance facts): thorough tier, long budget; undecided => reported as ASSUMED"""
    import kernels
    qs = []
    for name in sorted(kernels.kernel_functions(contracts)):
        if name not in db['funcs'] or name in kernels.ASSUMED:
            continue
        try:
            q = kernels.build_evis_query(db, contracts, consts, name)
        except bx2c.Unsupported:
            continue
        if q is None:
            continue
        q['meta']['soft'] = True
        qs.append(Query('evis/%s' % name, q['c'], checks=[], meta=q['meta'], timeout=1200, mem_gb=12))
    return qs


# ----------------------------------------------------------------------------------------------
# running a property
# ----------------------------------------------------------------------------------------------

def run_all(queries):
    res = []
    # longest first (sizes as a proxy)
    order = sorted(range(len(queries)), key=lambda i: -len(queries[i].c))
    out = [None] * len(queries)
    with ThreadPoolExecutor(JOBS) as ex:
        futs = {i: ex.submit(run_query, queries[i]) for i in order}
        for i, f in futs.items():
            try:
                out[i] = f.result()
            except Exception as e:
                out[i] = {'status': 'undecided', 'why': 'runner crashed: ' + repr(e), 'qid': queries[i].qid, 'wall_s': 0}
    return out


def evaluate(prop, queries, results, known, tier, seed, t0, extra_cov=None, skipped=None, assumptions=None, level='proof',
             selfcheck=None):
    """collect verdicts of the assertions that belong to `prop`; write evidence; print lines; return exit code"""
    obligations = 0
    discharged = 0
    violations = []
    known_hits = []
    undecided = []
    canary_bad = []
    samples = []
    per_backend = collections.Counter()
    assumed_lemmas = []
    solver_s = 0.0
    functions = set()
    cached = 0
    for q, r in zip(queries, results):
        what = q.meta.get('what')
        if r.get('cached'):
            cached += 1
        solver_s += r.get('wall_s', 0)
        if r['status'] != 'decided':
            if q.meta.get('soft'):
                assumed_lemmas.append('%s: undecided within budget (%s) -> ASSUMED, not proved' % (q.qid, r.get('why', '?')[:80]))
                continue
            undecided.append((q.qid, r.get('why', '?')[:500]))
            continue
        functions.add(q.meta.get('function'))
        saw_canary = False
        for p in r['props']:
            pid, kind = classify(p, what, q)
            if (p.get('desc') or '').startswith('unwinding assertion') and p['status'] != 'SUCCESS' and q.meta.get('what') != 'kernel':
                # a loop bound of the harness was too small: the query decides nothing
                undecided.append((q.qid, 'unwinding assertion failed: ' + (p.get('desc') or '')))
                continue
            if kind == 'canary':
                saw_canary = True
                if p['status'] != 'FAILURE':
                    canary_bad.append(q.qid)
                continue
            if what == 'bbk' and prop == 'C04' and re.search(r'ensures at exit|no exception|invariant|at most', p.get('desc') or ''):
                # the exit clauses of the decay0_bb contract fix how many particles the primary process emits (2, 3 or 4), their
                # species and that the emission calls are prompt and isotropic: the C04 facts about the double-beta primary process
                pid = 'C04'
            if what in ('bbk', 'safek') and pid in ('C03', 'C08') and prop in ('C03', 'C08') and re.search(r'invariant|no exception', p.get('desc') or ''):
                # the invariants of the decay0_bb contract carry both its safety (C08) and its energy (C03) clauses: a segment
                # that fails to re-establish one is a failed obligation of whichever of the two properties is being decided
                pid = prop
            if pid != prop:
                continue
            obligations += 1
            per_backend[r.get('backend', 'cadical')] += 1
            if p['status'] == 'SUCCESS':
                discharged += 1
                if len(samples) < 6 and kind != 'safety':
                    samples.append({'query': q.qid, 'assertion': p['desc'], 'verdict': 'proved'})
            elif p['status'] == 'FAILURE':
                k = match_known(known, prop, q.qid, re.sub(r'\s+', ' ', p.get('desc') or ''))
                if k:
                    known_hits.append((k, q, p))
                else:
                    violations.append((q, p, r))
            elif any(pp['status'] == 'FAILURE' and classify(pp, what)[1] != 'canary' for pp in r['props']):
                pass  # CBMC leaves assertions behind a failed one undetermined; the failure itself is reported
            else:
                undecided.append((q.qid, 'assertion status ' + str(p['status'])))
        if not saw_canary and q.meta.get('canary', True):
            canary_bad.append(q.qid + ' (no canary in output)')
    for s in samples[:2]:
        pass
    rc = 0
    lines = []
    seen_known = set()
    for k, q, p in known_hits:
        key = (k['qid'], k['desc'])
        if key in seen_known:
            continue
        seen_known.add(key)
        print('KNOWN-FINDING: property=%s %s :: %s -- %s' % (prop, k['qid'], k['desc'], k['text']))
    os.makedirs(os.path.join(REPLAYS, prop), exist_ok=True)
    vio_out = []
    seenv = set()
    # relational queries: when the two sides leave a segment towards different cut points, every related variable differs
    # as a consequence; those follow-up failures are recorded under the control divergence instead of one line each
    diverged = {}
    for q, p, r in violations:
        d_ = p.get('desc') or ''
        m_ = re.match(r'^(C0[12] \S+ seg@\S+): same successor cut point', d_)
        if q.meta.get('what') == 'rel' and m_:
            diverged[(q.qid, m_.group(1))] = okey(q.qid, p)
    consequences = collections.defaultdict(list)
    for q, p, r in violations:
        key = okey(q.qid, p)
        if key in seenv:
            continue
        d_ = p.get('desc') or ''
        m_ = re.match(r'^(C0[12] \S+ seg@\S+): related variable .* equal afterwards', d_)
        if q.meta.get('what') == 'rel' and m_ and (q.qid, m_.group(1)) in diverged:
            seenv.add(key)
            consequences[diverged[(q.qid, m_.group(1))]].append(key)
            continue
        seenv.add(key)
        rp = write_replay(prop, q, p, r)
        suffix = ''
        if not rp.get('replayed_failing_input'):
            suffix = ' no-failing-input-found'
        sn, st = site_of(q, p)
        print('VIOLATION property=%s replay=%s obligation="%s"%s%s' % (prop, rp['path'], key, (' site=%s [%s]' % (sn, st)) if sn else '', suffix))
        vio_out.append({'obligation': key, 'replay': rp['path'], 'confirmed_on_real_code': bool(rp.get('replayed_failing_input'))})
        rc = 1
    for v_ in vio_out:
        if v_['obligation'] in consequences:
            v_['follow_up_failures_in_the_same_segment'] = consequences[v_['obligation']]
    if undecided or canary_bad:
        for u in undecided[:20]:
            log('UNDECIDED %s: %s' % u)
        for c in canary_bad[:20]:
            log('VACUITY: reachability canary not refuted in %s' % c)
        if rc == 0:
            rc = 2
    if obligations == 0 and rc == 0:
        log('no obligations generated for %s: broken check' % prop)
        rc = 2
    if SELFCHECK_INCOMPLETE and rc == 0:
        rc = 2
    ev = {
        'property_id': prop, 'tier': tier, 'seed': seed, 'level': level,
        'coverage': {
            'obligations': obligations, 'discharged': discharged + len(known_hits) * 0,
            'checker_cmd': 'cbmc <query>.c --function harness --json-ui --trace <checks> --sat-solver cadical   (queries under build/q/, one per routine or per cut point)',
            'trusted_base': TRUSTED_BASE,
            'queries': len(queries), 'queries_from_cache': cached,
            'functions_under_contract': sorted(x for x in functions if x),
            'per_backend': dict(per_backend), 'solver_wall_s_sum': round(solver_s, 1),
            'refuted_known_findings': [{'obligation': '%s :: %s' % (k['qid'], k['desc']), 'text': k['text']} for k, q, p in known_hits],
            'violations': vio_out,
            'undecided': [list(u) for u in undecided[:50]],
            'not_rendered_or_skipped': [list(s) for s in (skipped or [])],
            'samples': samples,
            'extraction_selfcheck': selfcheck,
            'assumed_lemmas': assumed_lemmas,
        },
        'assumptions': assumptions or [],
        'wall_s': round(time.time() - t0, 1),
        'violations': len(vio_out),
    }
    if extra_cov:
        ev['coverage'].update(extra_cov)
    # a proof-level evidence file must have discharged == obligations; known findings are refuted obligations that are
    # listed, so they are reported separately and not counted as obligations of the proof
    ev['coverage']['obligations'] = obligations - len(known_hits)
    ev['coverage']['discharged'] = discharged
    os.makedirs(EVID, exist_ok=True)
    json.dump(ev, open(os.path.join(EVID, prop + '.json'), 'w'), indent=1)
    log('%s %s: %d obligations, %d discharged, %d known findings, %d violations, %d undecided, %d queries (%d cached), %.0fs'
        % (prop, tier, obligations, discharged, len(known_hits), len(vio_out), len(undecided), len(queries), cached, time.time() - t0))
    return rc


def site_of(q, p):
    """the call site (callee#ordinal) the counterexample was at when the assertion failed"""
    last = None
    for st in p.get('trace') or []:
        if st.get('t') == 'a' and st.get('lhs') == 'bx_site':
            try:
                last = int(str(st.get('v')).split()[0])
            except ValueError:
                pass
    sites = q.meta.get('sites') or {}
    if last and (last in sites or str(last) in sites):
        nm, txt = sites.get(last) or sites.get(str(last))
        return nm, txt
    return None, None


def level_of(p):
    last = None
    for st in p.get('trace') or []:
        if st.get('t') == 'a' and st.get('lhs') == 'level' and st.get('fn') == 'harness':
            try:
                last = int(str(st.get('v')).split()[0])
            except ValueError:
                pass
    return last


def write_replay(prop, q, p, r):
    tr = p.get('trace') or []
    dev = deviates_from_trace(tr)
    fail = [s for s in tr if s.get('t') == 'f']
    calls = [s for s in tr if s.get('t') == 'c']
    name = re.sub(r'[^A-Za-z0-9_.-]', '_', q.qid + '.' + hashlib.sha256((p.get('desc') or '').encode()).hexdigest()[:8])
    path = os.path.join(REPLAYS, prop, name + '.json')
    rec = {'property': prop, 'obligation': okey(q.qid, p), 'query_file': r.get('cfile'), 'cbmc_cmd': r.get('cmd'),
           'assertion': p.get('desc'), 'cbmc_property': p.get('name'), 'location': p.get('loc'),
           'meta': {k: v for k, v in q.meta.items() if k != 'sites'}, 'deviates': dev, 'call_site': site_of(q, p), 'level': level_of(p),
           'call_path': [(c.get('from'), c.get('fn'), c.get('ln')) for c in calls][-40:],
           'failure': fail[-1] if fail else None,
           'trace_tail': tr[-120:]}
    if q.meta.get('what') == 'rel':
        # relational obligations are refuted under uninterpreted arithmetic: no concrete input in the trace.  Search one on the
        # REAL code against the compiled reference (tools/diffref.py), once per routine and run
        rec['native_replay'] = differential_witness(q.meta.get('function'))
    else:
        rec['native_replay'] = native_replay(prop, q, rec)
    rec['replayed_failing_input'] = bool(rec['native_replay'] and rec['native_replay'].get('confirmed'))
    rec['path'] = path
    rec['rerun'] = './check replay %s' % os.path.relpath(path, VERIF)
    json.dump(rec, open(path, 'w'), indent=1)
    return rec


_DW = {}


def differential_witness(fn):
    """first (routine, level, seed) on which /repo's compiled routine and the compiled Fortran reference generate different
    events; for a shared kernel (beta, funbeta*, fermi, nucltransK*, bb helpers ...) the search runs over every routine"""
    key = fn or '?'
    if key in _DW:
        return _DW[key]
    try:
        import diffref
        exe, n = diffref.build()
        names = {os.path.basename(h)[:-2].lower(): os.path.basename(h)[:-2] for h in os.listdir(os.path.join(bx2c.REPO, 'bxdecay0')) if h.endswith('.h')}
        w = None
        if fn and fn.lower() in names:
            w = diffref.find(names[fn.lower()], seeds=1500)
            scope = 'routine %s, 1500 seeds per level' % fn
        else:
            p = subprocess.run([exe, 'survey', '150'], capture_output=True, text=True, timeout=900)
            scope = 'every nuclide and cascade routine, 150 seeds per level (the failed obligation is in a shared kernel)'
            for ln in p.stdout.split('\n'):
                m = re.match(r'^DIFF (\S+) level (\d+) seed (\d+)', ln)
                if m:
                    s = subprocess.run([exe, 'show', m.group(1), m.group(3), m.group(2)], capture_output=True, text=True, timeout=600)
                    w = {'routine': m.group(1), 'level': int(m.group(2)), 'seed': int(m.group(3)), 'events': s.stdout.split('\n')[:60],
                         'replay': 'python3 tools/diffref.py show %s %s %s' % (m.group(1), m.group(3), m.group(2))}
                    break
        if w:
            r = {'confirmed': True, 'how': 'differential run of the real routine against the compiled Fortran reference, same scripted deviates', 'searched': scope, 'witness': w}
        else:
            r = {'confirmed': False, 'why': 'no differing event found by the differential search', 'searched': scope}
    except Exception as e:
        r = {'confirmed': False, 'why': 'differential search error: ' + repr(e)[:300]}
    _DW[key] = r
    return r


def native_replay(prop, q, rec):
    """replay CBMC's deviates against the real code (ASan/UBSan build of /repo's working tree)"""
    try:
        import replay
        return replay.replay(prop, q.meta, rec)
    except Exception as e:
        return {'confirmed': False, 'why': 'replay machinery error: ' + repr(e)}


# ----------------------------------------------------------------------------------------------
# property drivers
# ----------------------------------------------------------------------------------------------

SELFCHECK_INCOMPLETE = False


def selfcheck_summary(db, tier, seed):
    r = native.selfcheck(db, nev=100 if tier == 'quick' else 1000, seed=seed)
    hard = [d for d in r['diffs'] if not (d and d[0] == 'exit' and str(d[1]) == '124' and str(d[2]) == '124')]
    global SELFCHECK_INCOMPLETE
    SELFCHECK_INCOMPLETE = bool(r['diffs']) and not hard
    if SELFCHECK_INCOMPLETE:
        # both native builds ran into the time limit on the same tasks (a generator that no longer terminates): the rendering
        # is not contradicted; the obligations are still decided, but a run without violations ends in exit 2, not 0
        log('extraction self-check incomplete: %d native task groups did not finish on either build' % len(r['diffs']))
    return {'tasks': r['tasks'], 'events_compared_bit_for_bit': r['events'], 'differences': len(hard), 'did_not_finish': len(r['diffs']) - len(hard),
            'first_differences': [list(map(str, d)) for d in (hard or r['diffs'])[:5]], 'wall_s': round(r['wall_s'], 1)}


def f77c_crosscheck(tier):
    """tools/refnative.py: the reference Fortran compiled by gcc (REAL = 8 bytes) against f77c's rendering compiled natively,
    same scripted deviates; result cached on the hash of everything it reads"""
    h = hashlib.sha256()
    for f in (REF_FOR, os.path.join(VERIF, 'tools', 'f77c.py'), os.path.join(VERIF, 'tools', 'bx2c.py'), os.path.join(VERIF, 'tools', 'refnative.py'),
              os.path.join(VERIF, 'shim', 'bx_shim.h'), os.path.join(bx2c.REPO, 'bxdecay0', 'divdif.cc')):
        h.update(open(f, 'rb').read())
    seeds = 10 if tier == 'quick' else 100
    h.update(str(seeds).encode())
    cp = os.path.join(VERIF, 'build', 'results', 'refnative.%s.json' % h.hexdigest()[:20])
    if os.path.exists(cp) and not os.environ.get('VERIF_NOCACHE'):
        r = json.load(open(cp))
        r['cached'] = True
        return r
    t0 = time.time()
    p = subprocess.run([sys.executable, os.path.join(VERIF, 'tools', 'refnative.py'), str(seeds)], capture_output=True, text=True, timeout=7200)
    try:
        r = json.loads(p.stdout[p.stdout.index('{'):])
    except (ValueError, IndexError):
        r = {'status': 'crashed', 'stderr': p.stderr[-2000:]}
    r['wall_s'] = round(time.time() - t0, 1)
    if r.get('status') == 'ran':
        os.makedirs(os.path.dirname(cp), exist_ok=True)
        json.dump(r, open(cp, 'w'), indent=1)
    return r


def genbb_crosscheck():
    """tools/refgenbb.py, cached on the hash of what it reads"""
    h = hashlib.sha256()
    for f in (REF_FOR, os.path.join(VERIF, 'tools', 'f77c.py'), os.path.join(VERIF, 'tools', 'bx2c.py'), os.path.join(VERIF, 'tools', 'refnative.py'),
              os.path.join(VERIF, 'tools', 'refgenbb.py'), os.path.join(VERIF, 'shim', 'bx_shim.h')):
        h.update(open(f, 'rb').read())
    cp = os.path.join(VERIF, 'build', 'results', 'refgenbb.%s.json' % h.hexdigest()[:20])
    if os.path.exists(cp) and not os.environ.get('VERIF_NOCACHE'):
        r = json.load(open(cp))
        r['cached'] = True
        return r
    p = subprocess.run([sys.executable, os.path.join(VERIF, 'tools', 'refgenbb.py')], capture_output=True, text=True, timeout=3600)
    try:
        r = json.loads(p.stdout[p.stdout.index('{'):])
    except (ValueError, IndexError):
        r = {'status': 'crashed', 'stderr': p.stderr[-2000:]}
    if r.get('status') == 'ran':
        os.makedirs(os.path.dirname(cp), exist_ok=True)
        json.dump(r, open(cp, 'w'), indent=1)
    return r


def f77c_crosscheck_ok(tier):
    r = f77c_crosscheck(tier)
    if r.get('status') != 'ran':
        log('f77c cross-check could not run (%s): %s' % (r.get('status'), (r.get('stderr') or '')[-400:]))
        return None, r
    if r.get('differ') or r.get('exit'):
        log('f77c cross-check FAILED: the rendering of the reference disagrees with the compiled Fortran for %s: %s' % (r.get('differ'), r.get('first_differences', [])[:3]))
        return None, r
    summ = {'units_compared': r['routines_compared'], 'all_agree': True, 'seeds_per_routine_and_level': r['seeds_per_routine_and_level'], 'summary': r['summary'],
            'units_translated_by_f77c': r['units_translated'], 'units_not_translated': r['units_not_translated'], 'wall_s': r.get('wall_s'), 'cached': bool(r.get('cached')),
            'how': 'gcc -x f77 -fdefault-real-8 -O0 on the reference text vs the natively compiled f77c rendering, same scripted deviates; events compared to 1e-9 relative, particle codes and deviate counts exactly'}
    return summ, r


def prop_l3(prop, tier, seed):
    t0 = time.time()
    db = load_db()
    contracts, consts = oblig.load_contracts()
    known, fixed = load_known()
    sc = selfcheck_summary(db, tier, seed)
    if sc['differences']:
        log('extraction self-check failed: the rendering does not reproduce the real library: %s' % sc['first_differences'])
        return 2
    whats = {'C04': ['c04'], 'C08': ['c04'], 'C03': ['c03']}[prop]
    queries = []
    skipped = [list(b) for b in db['bad']]
    for w in whats:
        qs, sk = l3_queries(db, contracts, consts, w, known=known)
        queries += qs
        skipped += sk
    if not os.environ.get('VERIF_ONLY'):
        qs, sk = kernel_queries(db, contracts, consts)
        if os.environ.get('VERIF_KERNELS_ONLY'):
            queries = []
        queries += qs
        skipped += sk
        if prop == 'C03':
            # the level table of genbbsub only hands a cascade levels that the cascade releases (assertions "C03 ..." in
            # the double-beta dispatch queries)
            gq, sk = genbb_queries(db, 'C05', known)
            queries += [q for q in gq if q.qid.startswith('genbbsub/c05dbd/')]
        if prop == 'C03' and tier == 'thorough':
            queries += evis_queries(db, contracts, consts)
    only_ = set(os.environ['VERIF_ONLY'].split(',')) if os.environ.get('VERIF_ONLY') else None
    if True:
        if prop in ('C03', 'C08', 'C04') and (only_ is None or 'decay0_bb' in only_):
            qs, sk = bbk_queries(db, prop, tier)
            queries += qs
            skipped += sk
        if prop == 'C08' and only_ is None:
            import safek
            sq, sk = safek.all_queries(db, os.path.join(VERIF, 'contracts', 'safety.contract'))
            for q in sq:
                queries.append(Query(q['qid'], q['c'], checks=safek.CHECKS, meta=q['meta'], timeout=900, mem_gb=10, extra=q['extra']))
            skipped += sk
    results = run_all(queries)
    return evaluate(prop, queries, results, known, tier, seed, t0, skipped=skipped, selfcheck=sc,
                    assumptions=ASSUMPTIONS.get(prop, []) + BETAK_ASSUMPTIONS)


def prop_genbb(prop, tier, seed):
    t0 = time.time()
    db = load_db()
    known, fixed = load_known()
    sc = selfcheck_summary(db, tier, seed)
    if sc['differences']:
        log('extraction self-check failed: %s' % sc['first_differences'])
        return 2
    queries, skipped = genbb_queries(db, prop, known)
    results = run_all(queries)
    extra = {}
    rc_static = 0
    if prop == 'C06':
        gx = genbb_crosscheck()
        if gx.get('status') != 'ran' or gx.get('differ') or gx.get('exit'):
            log('GENBBsub rendering cross-check failed or could not run: %s %s' % (gx.get('status'), (gx.get('first_differences') or gx.get('stderr') or '')[:3]))
            return 2
        extra['f77c_genbbsub_crosscheck'] = {'all_agree': True, 'nuclides': gx['nuclides_rendered'], 'summary': gx['summary'], 'cached': bool(gx.get('cached')),
                                             'how': 'compiled reference GENBBsub(i2bbs=1, name, ilevel, modebb, istart=-1) (bb replaced by a recorder) against the natively compiled f77c rendering ref_genbbinit, every ilevel in -2..21 and modebb in -1..22: ier, Qbb, Zdbb, Adbb, EK, levelE'}
    if prop == 'C05':
        cat = catalogue_obligations(db)
        extra['catalogue_facts'] = [{'fact': d, 'holds': ok, 'difference': diff} for d, ok, diff in cat]
        for d, ok, diff in cat:
            if not ok:
                k = match_known(known, 'C05', 'catalogue', d)
                if k:
                    print('KNOWN-FINDING: property=C05 catalogue :: %s -- %s' % (d, k['text']))
                else:
                    os.makedirs(os.path.join(REPLAYS, 'C05'), exist_ok=True)
                    rp = os.path.join(REPLAYS, 'C05', 'catalogue.' + hashlib.sha256(d.encode()).hexdigest()[:8] + '.json')
                    json.dump({'property': 'C05', 'obligation': 'catalogue :: ' + d, 'difference': diff,
                               'note': 'static set comparison of README.rst, resources/description/*.lis and the string literals of genbbsub'}, open(rp, 'w'), indent=1)
                    print('VIOLATION property=C05 replay=%s obligation="catalogue :: %s" difference=%s' % (rp, d, diff))
                    rc_static = 1
    rc = evaluate(prop, queries, results, known, tier, seed, t0, skipped=skipped, selfcheck=sc, assumptions=ASSUMPTIONS.get(prop, []), extra_cov=extra)
    return rc if rc != 0 else rc_static


def prop_c16(prop, tier, seed):
    import misc
    t0 = time.time()
    db = load_db()
    known, fixed = load_known()
    queries, skipped = [], [list(b) for b in db['bad'] if b[1] in ('decay0_dgmlt1', 'decay0_dgmlt2')]
    for fn in ('decay0_dgmlt1', 'decay0_dgmlt2'):
        try:
            q = misc.build_c16_tables_query(db, fn)
            queries.append(Query('c16/tables/%s' % fn, q['c'], checks=['--no-standard-checks', '--bounds-check'], meta=q['meta'], timeout=300))
        except bx2c.Unsupported as e:
            skipped.append((fn, str(e)))
    # the summation loops of dgmlt1/dgmlt2 under their label-machine contract: the 'c16 at' pairing clauses of contracts/safety.contract
    import safek
    sq, sk = safek.all_queries(db, os.path.join(VERIF, 'contracts', 'safety.contract'))
    for q in sq:
        if q['meta']['function'] in ('decay0_dgmlt1', 'decay0_dgmlt2'):
            queries.append(Query(q['qid'], q['c'], checks=safek.CHECKS, meta=q['meta'], timeout=900, mem_gb=10, extra=q['extra']))
    skipped += [x for x in sk if 'dgmlt' in x[0]]
    results = run_all(queries)
    return evaluate(prop, queries, results, known, tier, seed, t0, skipped=skipped, assumptions=ASSUMPTIONS['C16'],
                    extra_cov={'not_covered': ['exactness on every interval (affine change of variable: real-arithmetic lemma)', 'adaptive QNG tolerance (GSL internals)',
                                               'Simpson exactness, golden-section accuracy, divided differences, rotate_zyz orthonormality, Fermi closed form: not built / not decidable here']})


def prop_c07(prop, tier, seed):
    import misc
    t0 = time.time()
    db = load_db()
    contracts, consts = oblig.load_contracts()
    known, fixed = load_known()
    sc = selfcheck_summary(db, tier, seed)
    if sc['differences']:
        return 2
    queries, skipped = kernel_queries(db, contracts, consts)
    gq, sk2 = genbb_queries(db, 'C06', known)
    queries += gq
    results = run_all(queries)
    facts = misc.frame_facts(db)
    rc_static = 0
    fl = []
    for (fn, fact, ok, detail) in facts:
        if not ok:
            d = '%s: %s' % (fn, fact)
            k = match_known(known, 'C07', 'frame', d)
            if k:
                print('KNOWN-FINDING: property=C07 frame :: %s -- %s' % (d, k['text']))
            else:
                os.makedirs(os.path.join(REPLAYS, 'C07'), exist_ok=True)
                rp = os.path.join(REPLAYS, 'C07', 'frame.' + hashlib.sha256(d.encode()).hexdigest()[:8] + '.json')
                json.dump({'property': 'C07', 'obligation': 'frame :: ' + d, 'detail': detail}, open(rp, 'w'), indent=1)
                print('VIOLATION property=C07 replay=%s obligation="frame :: %s" detail=%s no-failing-input-found' % (rp, d, detail[:3]))
                rc_static = 1
            fl.append({'function': fn, 'fact': fact, 'detail': detail})
    rc = evaluate(prop, queries, results, known, tier, seed, t0, skipped=skipped + sk2, selfcheck=sc, assumptions=ASSUMPTIONS['C07'] + BETAK_ASSUMPTIONS,
                  extra_cov={'static_frame_facts': len(facts), 'static_frame_facts_holding': sum(1 for f_ in facts if f_[2]), 'static_frame_facts_failing': fl})
    return rc if rc != 0 else rc_static


def prop_rel(prop, tier, seed):
    t0 = time.time()
    db = load_db()
    known, fixed = load_known()
    sc = selfcheck_summary(db, tier, seed)
    if sc['differences']:
        log('extraction self-check failed: %s' % sc['first_differences'])
        return 2
    fx, fxraw = f77c_crosscheck_ok(tier)
    if fx is None:
        return 2
    queries, skipped = rel_queries(db, prop)
    results = run_all(queries)
    cuts = sum(len(q.meta.get('cuts', [])) + 1 for q in queries)
    extra_as = []
    for q in queries:
        fn_ = q.meta.get('function')
        if q.meta.get('assumed_no_exc'):
            extra_as.append('%s: %s' % (fn_, q.meta['assumed_no_exc']))
        if q.meta.get('truncated_at'):
            extra_as.append('%s: compared up to %s only (the angular-correlation tail is not covered)' % (fn_, q.meta['truncated_at']))
        if q.meta.get('function') == 'decay0_bb':
            extra_as.append('decay0_bb: legacy mode 1..20 (one query per mode and cut point); spthe1/spthe2 are compared through the sequence of array reads and writes of each segment, equal tables assumed at each cut point and every write checked')
    return evaluate(prop, queries, results, known, tier, seed, t0, skipped=skipped, selfcheck=sc,
                    assumptions=ASSUMPTIONS.get('C01', []) + (ASSUMPTIONS['C02+'] if prop == 'C02' else []) + sorted(set(extra_as)),
                    extra_cov={'routine_pairs': len(queries), 'cut_points': cuts, 'f77c_crosscheck': fx,
                               'reference': 'resources/code/decay0/decay0_2020-04-20.for rendered by f77c on this run',
                               'arithmetic': 'uninterpreted + - * / and libm (equal under every interpretation => equal under IEEE); literals within 5e-6 relative are one constant'})


BETAK_ASSUMPTIONS = [
    'decay0_beta/beta1/beta2/beta_1fu: contract enforced in two steps (wrapper against the worker contract; worker through the label machine); deviate*x abstracted to [0,x]; tgold/funbeta* return any double; the ghost deviate counter does not wrap (fewer than 2^47 rejection rounds); termination of the rejection loop is almost-sure only and not claimed',
]
BBK_ASSUMPTIONS = [
    'decay0_bb preconditions = what genbbsub establishes: mode 1..20, 0 < Qbb <= 4.3 MeV, e0 > 0, window min < max as decay0_generator enforces (tied to the level table by the C06 obligations, not re-proved here)',
    'decay0_bb abstraction: deviate * x is ANY value between 0 and x (sound over-approximation; the exact product defeats the SAT back end)',
    'decay0_bb abstraction: a product of two non-literal doubles and every quotient is an uninterpreted function of its operands; AXIOM div-range: a >= 0, b >= 0.5 => 0 <= a/b <= 2a',
    'decay0_bb callees fe*_mod*, gauss, dgmlt1, tgold, fermi return ANY double (their values reach table contents and comparisons only)',
]
ASSUMPTIONS = {
    'C02+': ['decay0_gauss (GSL QNG) and the reference gauss (CERNLIB D103 adaptive 8/16-point) are different algorithms for the same integral to the same relative tolerance: treated as one abstract effect of (integrand, limits, eps, closure); their numerical agreement is NOT decided',
             'dgmlt1/dgmlt2 (CERNLIB D110) are not part of the reference source file: abstract effect of (integrand, limits, ni, ng, closure) on both sides; their quadrature tables are decided by C16, the summation loop is not compared',
             'genbbsub dispatch, Q-values and levels are the C05/C06 obligations; the cascade routines and fe*_mod/dshelp/tgold/fermi have their own pairs listed here'],
    'C16': ['tabulated Gauss-Legendre rules: ground obligations on the real initialisers, bit-precise',
            'summation loops of dgmlt1/dgmlt2 (label machine, all NI in 1..4096, both orders, all limits): every abscissa stored for panel k and node i is the term R*t_i + RA + (k-1)*D and is stored next to the weight w_i of the SAME i; products are uninterpreted terms, so this is a structural (term-level) fact, not a numerical one',
            'NOT decided: the accumulation S += V*F over the flushed batch and the final R*S; exactness on an arbitrary interval then follows by the affine change of variable: real-arithmetic lemma, assumed',
            'const static tables are given their real initialisers at the start of every segment (write-once: C07 frame scan)'],
    'C07': ['frame of L0-L2 kernels: DFCC assigns obligations; frame of L3-L5 bodies: scan of every assignment target in the clang AST (static fact, not a CBMC obligation)',
            'pointer/reference into the particle vector across an emission is the C08 obligation set (vector model: any push_back may reallocate)',
            'other generator instances, reset()/re-initialisation, shoot() resetting the event: decay0_generator.cc (pimpl/STL), not covered'],
    'C05': ['scheme routines are replaced by the abstract effect "log my id, append 1..3 particles, return a decay time"; that each routine IS its scheme is C01/C04',
            'double-beta names: dispatch to the *low cascade is covered by C06/C03 obligations, not here',
            'bb_utils.cc list-file parser and the CLI/Geant4 consumers (std::map/ifstream) are outside the C subset: not covered'],
    'C06': ['GENBBsub character tests are evaluated for each concrete published name by f77c; the numeric part is the rendered reference, cross-checked on every run against the compiled reference on all 51 x 24 x 24 (name, ilevel, modebb) configurations (coverage.f77c_genbbsub_crosscheck)',
            'gA routing, energy-window validation and the label<->mode maps live in decay0_generator.cc/bb_utils.cc (STL/iostream): not covered',
            'decay0_bb(init) is a no-op stub here (its effect on the spectrum tables is not part of the accept/reject decision)'],
    'C01': ['f77c (renderer of the reference) is cross-checked on every run against gcc\'s Fortran front end: 117 routines x levels + 25 integrands agree on scripted deviates (coverage.f77c_crosscheck); NOT covered by that cross-check: bb, dshelp1, GENBBsub, gfang/pairext/compton/moller; reference REAL arithmetic is rendered (and compiled, -fdefault-real-8) as double: single-precision rounding of the original build is outside "floating-point noise" comparisons',
            'simulation meta-lemma: segment-wise preservation of the relation from related states implies equal traces for whole runs',
            'callees are related by their own obligations; here they are the same uninterpreted effect on both sides',
            'literals that differ by <= 5e-6 relative are the same constant (the reference itself mixes 0.511/emass, 3.1415927/pi)'],
    'C04': ['deviates are doubles strictly inside (0,1) (i_random documents [0,1): a deviate of exactly 0 gives log(0))',
            'time order at L3 follows from the leaf contract (time = previous + tdlev, tdlev >= tclev >= 0) and the call-site preconditions; the running sum itself is not re-proved at L3',
            'termination after a bounded number of deviates is almost-sure only and is not claimed; what is proved: every cycle consumes >= 1 deviate and has an exit edge'],
    'C08': ['uninitialised reads are not a CBMC check', 'std::vector modelled as: any push_back may reallocate (capacity arbitrary)',
            'dgmlt1/dgmlt2 (contracts/safety.contract): NI <= 4096; the integrand callback writes only its output array and the two-element x; decay0_divdif: decided for the only call site NN=48, MM=2 (unwinding 14 with unwinding assertions, complete for these sizes)'] + BBK_ASSUMPTIONS,
    'C03': ['nominal energy accounting: the L1/L2 contracts define the nominal release (Egamma); the gap to the energy really booked is bounded per call by the L2 lemmas',
            'sum of <= 100 per-call gaps <= 2.5e-4 MeV (triangle inequality over reals)',
            'decay0_bb: a momentum p = sqrt(e(e+2m)) along (sin t cos f, sin t sin f, cos t) carries kinetic energy e (real-arithmetic lemma, not decided); the budget lemmas W2 and W20 of contracts/bb.contract are decided/attempted in the thorough tier only and otherwise ASSUMED (machine arithmetic treated as mathematical)',
            'NOT CLAIMED: toallevents >= 1, == 1 for the full range, monotone in the window (properties of the numerical integrators gauss/dgmlt1, outside contracts on this code)'] + BBK_ASSUMPTIONS,
}


def main():
    if len(sys.argv) < 2:
        print(__doc__)
        return 2
    cmd = sys.argv[1]
    seed = int(os.environ.get('VERIF_SEED', '1'))
    if cmd == 'setup':
        return setup()
    if cmd == 'replay':
        import replay
        return replay.main(sys.argv[2:])
    tier = sys.argv[2] if len(sys.argv) > 2 else os.environ.get('VERIF_TIER', 'quick')
    try:
        if cmd in ('C04', 'C08', 'C03'):
            return prop_l3(cmd, tier, seed)
        if cmd in ('C01', 'C02'):
            return prop_rel(cmd, tier, seed)
        if cmd in ('C05', 'C06'):
            return prop_genbb(cmd, tier, seed)
        if cmd == 'C16':
            return prop_c16(cmd, tier, seed)
        if cmd == 'C07':
            return prop_c07(cmd, tier, seed)
        log('property %s is not claimed (see MANIFEST.not_applicable)' % cmd)
        return 2
    except Exception:
        traceback.print_exc()
        return 2


def setup():
    ok = True
    for tool in ('cbmc', 'goto-cc', 'goto-instrument', 'clang++', 'gcc', 'g++'):
        r = subprocess.run(['which', tool], stdout=subprocess.PIPE)
        if r.returncode != 0:
            log('missing tool ' + tool)
            ok = False
    os.makedirs(BUILD, exist_ok=True)
    db = load_db()
    log('setup: %d functions rendered, %d not renderable' % (len(db['funcs']), len(db['bad'])))
    native.build_real()
    native.build_rendered(db)
    return 0 if ok else 2


if __name__ == '__main__':
    sys.exit(main())

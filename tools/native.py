#!/usr/bin/env python3
"""native.py -- native builds used by the extraction self-check and by counterexample replay.

 * real:  g++ build of /repo's plumbing translation units (current working tree), optionally with ASan/UBSan
 * rend:  gcc build of the bx2c rendering (shim in BX_NATIVE mode)
Both are driven by the same scripted deviate source; events are dumped with hex floats and compared
bit for bit.  Objects are cached by content hash under build/native/.
"""
import os, sys, hashlib, subprocess, pickle, json, time
from concurrent.futures import ThreadPoolExecutor
sys.path.insert(0, os.path.dirname(os.path.abspath(__file__)))
import bx2c, extract

VERIF = extract.VERIF
REPO = bx2c.REPO
NAT = os.path.join(VERIF, 'build', 'native')

DRIVER_COMMON = r'''
/* task file lines:
 *   B <name> <nevents> <seed>
 *   D <name> <level> <mode> <nevents> <seed> [<ebb1> <ebb2>]
 *   S <name> <ndev> d0 d1 ...      (scripted deviates, one background event; then LCG)
 *   T <name> <level> <mode> <ndev> d0 d1 ...   (scripted, one DBD event after init)
 */
'''

CXX_DRIVER = r'''
#include <cstdio>
#include <cstdlib>
#include <cstring>
#include <string>
#include <vector>
#include <iostream>
#include <stdexcept>
#include <bxdecay0/i_random.h>
#include <bxdecay0/event.h>
#include <bxdecay0/bb.h>
#include <bxdecay0/bb_utils.h>
#include <bxdecay0/genbbsub.h>
namespace bxdecay0 {
  // link seam: these two porcelain lookups only feed diagnostic messages of genbbsub
  dbd_mode_type dbd_mode_from_legacy_modebb(const legacy_modebb_type) { return DBDMODE_UNDEF; }
  std::string dbd_mode_description(const dbd_mode_type) { return ""; }
}
struct scripted : public bxdecay0::i_random {
  std::vector<double> pre; size_t k = 0; unsigned long long s; unsigned long ndraw = 0; bool use_pre = false;
  double operator()() override {
    ndraw++;
    if (use_pre && k < pre.size()) return pre[k++];
    s = s * 6364136223846793005ULL + 1442695040888963407ULL;
    double u = ((s >> 11) + 0.5) * (1.0 / 9007199254740992.0);
    return u;
  }
};
static void dump(const bxdecay0::event & ev, unsigned long ndraw, int exc) {
  std::printf("E n=%zu draws=%lu exc=%d time=%a gen=%s\n", ev.get_particles().size(), ndraw, exc, ev.get_time(), ev.get_generator().c_str());
  for (const auto & p : ev.get_particles())
    std::printf("P %d %a %a %a %a\n", (int)p.get_code(), p.get_time(), p.get_px(), p.get_py(), p.get_pz());
}
int main(int argc, char ** argv) {
  std::FILE * f = std::fopen(argv[1], "r");
  char line[1 << 16];
  std::cerr.setstate(std::ios_base::failbit);
  while (std::fgets(line, sizeof line, f)) {
    char kind; char name[64]; int level = 0, mode = 0, nev = 1; static unsigned long long dseed = 1; unsigned long long seed = dseed; int off = 0;
    double ebb1 = -1, ebb2 = -1;
    if (line[0] == '@') { std::sscanf(line, "@seed %llu", &dseed); continue; }
    scripted rng;
    if (line[0] == 'B') { std::sscanf(line, "%c %63s %d %llu", &kind, name, &nev, &seed); }
    else if (line[0] == 'D') { std::sscanf(line, "%c %63s %d %d %d %llu %lf %lf", &kind, name, &level, &mode, &nev, &seed, &ebb1, &ebb2); }
    else if (line[0] == 'S' || line[0] == 'T') {
      int nd = 0;
      if (line[0] == 'S') std::sscanf(line, "%c %63s %d%n", &kind, name, &nd, &off);
      else std::sscanf(line, "%c %63s %d %d %d%n", &kind, name, &level, &mode, &nd, &off);
      char * p = line + off;
      for (int i = 0; i < nd; i++) { rng.pre.push_back(std::strtod(p, &p)); }
      nev = 1;
    } else continue;
    rng.s = seed;
    std::printf("T %s", line);
    bool dbd = (line[0] == 'D' || line[0] == 'T');
    bxdecay0::bbpars pars;
    bxdecay0::event ev;
    int ier = 0;
    int exc = 0;
    if (ebb1 >= 0) { pars.ebb1 = ebb1; pars.ebb2 = ebb2; }
    try {
      bxdecay0::genbbsub(rng, ev, dbd ? 1 : 2, name, level, mode, bxdecay0::GENBBSUB_ISTART_INIT, ier, pars);
    } catch (std::exception &) { exc = 1; }
    std::printf("I ier=%d exc=%d draws=%lu", ier, exc, rng.ndraw);
    if (dbd && !exc && ier == 0) std::printf(" Qbb=%a e0=%a toall=%a levelE=%d itrans=%d spmax=%a", pars.Qbb, pars.e0, pars.toallevents, pars.levelE, pars.itrans02, pars.spmax);
    std::printf("\n");
    if (ier != 0 || exc) continue;
    rng.use_pre = true;   // scripted deviates are for the generation phase; initialisation drew from the LCG
    for (int i = 0; i < nev; i++) {
      ev.reset();
      rng.ndraw = 0;
      exc = 0;
      try {
        bxdecay0::genbbsub(rng, ev, dbd ? 1 : 2, name, level, mode, bxdecay0::GENBBSUB_ISTART_GENERATE, ier, pars);
      } catch (std::exception &) { exc = 1; }
      dump(ev, rng.ndraw, exc);
    }
  }
  return 0;
}
'''

C_DRIVER = r'''
#include <stdio.h>
#include "bx_shim.h"
#include "types.h"
#include "bx_shim_fn.h"
#include "protos.h"
#include <gsl/gsl_errno.h>
#include <gsl/gsl_integration.h>
#include <gsl/gsl_sf_gamma.h>
int bx_exc;
unsigned long g_draws;
static double pre[4096]; static int npre, kpre; static unsigned long long lcg;
static int use_pre = 0;
static const char *target_fn = 0;          /* 'R' tasks: scripted deviates go to draws made in this function only */
static double rec[65536]; static int nrec;
double bx_draw_at(bx_prng *p, const char *fn) {
  double u;
  g_draws++;
  if (use_pre && kpre < npre && (target_fn == 0 || strcmp(fn, target_fn) == 0)) u = pre[kpre++];
  else {
    lcg = lcg * 6364136223846793005ULL + 1442695040888963407ULL;
    u = ((lcg >> 11) + 0.5) * (1.0 / 9007199254740992.0);
  }
  if (nrec < 65536) rec[nrec++] = u;
  return u;
}
#define bx_draw(p) bx_draw_at((p), __func__)
int bx_ext_gsl_sf_lngamma_complex_e(double zr, double zi, bx_gsl_sf_result *lnr, bx_gsl_sf_result *arg) {
  gsl_sf_result a, b; int st = gsl_sf_lngamma_complex_e(zr, zi, &a, &b);
  lnr->val = a.val; lnr->err = a.err; arg->val = b.val; arg->err = b.err; return st;
}
double bx_ext_gsl_sf_gamma(double x) { return gsl_sf_gamma(x); }
void *bx_ext_gsl_set_error_handler_off(void) { return (void *)gsl_set_error_handler_off(); }
void *bx_ext_gsl_set_error_handler(void *h) { return (void *)gsl_set_error_handler((gsl_error_handler_t *)h); }
int bx_ext_gsl_integration_qng(const bx_gsl_function *f, double a, double b, double ea, double er, double *r, double *ae, unsigned long *ne) {
  gsl_function F; size_t n; F.function = f->function; F.params = f->params;
  int st = gsl_integration_qng(&F, a, b, ea, er, r, ae, &n); *ne = n; return st;
}
const char *bx_ext_gsl_strerror(int e) { return ""; }
int dbd_mode_from_legacy_modebb(int m) { return 0; }
static void dump(struct event *ev, unsigned long ndraw, int exc) {
  printf("E n=%zu draws=%lu exc=%d time=%a gen=%.*s\n", (size_t)ev->_particles_.size, ndraw, exc, ev->_time_, (int)ev->_generator_.n, ev->_generator_.s);
  for (unsigned long i = 0; i < ev->_particles_.size; i++) {
    struct particle *p = &ev->_particles_.data[i];
    printf("P %d %a %a %a %a\n", (int)p->_code_, p->_time_, p->_momentum_[0], p->_momentum_[1], p->_momentum_[2]);
  }
}
int main(int argc, char **argv) {
  FILE *f = fopen(argv[1], "r");
  static char line[1 << 16];
  while (fgets(line, sizeof line, f)) {
    char kind; static char name[64]; int level = 0, mode = 0, nev = 1; static unsigned long long dseed = 1; unsigned long long seed = dseed; int off = 0;
    double ebb1 = -1, ebb2 = -1;
    if (line[0] == '@') { sscanf(line, "@seed %llu", &dseed); continue; }
    npre = 0; kpre = 0; target_fn = 0; use_pre = 0;
    if (line[0] == 'B') { sscanf(line, "%c %63s %d %llu", &kind, name, &nev, &seed); }
    else if (line[0] == 'D') { sscanf(line, "%c %63s %d %d %d %llu %lf %lf", &kind, name, &level, &mode, &nev, &seed, &ebb1, &ebb2); }
    else if (line[0] == 'S' || line[0] == 'T') {
      int nd = 0;
      if (line[0] == 'S') sscanf(line, "%c %63s %d%n", &kind, name, &nd, &off);
      else sscanf(line, "%c %63s %d %d %d%n", &kind, name, &level, &mode, &nd, &off);
      char *p = line + off;
      for (int i = 0; i < nd; i++) pre[npre++] = strtod(p, &p);
      nev = 1;
    } else if (line[0] == 'R' || line[0] == 'Q') {
      /* R <name> <targetfn> <seed> <nd> d..      background; Q <name> <level> <mode> <targetfn> <seed> <nd> d..   DBD */
      int nd = 0; static char tf[128];
      if (line[0] == 'R') sscanf(line, "%c %63s %127s %llu %d%n", &kind, name, tf, &seed, &nd, &off);
      else sscanf(line, "%c %63s %d %d %127s %llu %d%n", &kind, name, &level, &mode, tf, &seed, &nd, &off);
      char *p = line + off;
      for (int i = 0; i < nd; i++) pre[npre++] = strtod(p, &p);
      target_fn = tf; nev = 1;
    } else continue;
    lcg = seed; nrec = 0;
    printf("T %s", line);
    int dbd = (line[0] == 'D' || line[0] == 'T' || line[0] == 'Q');
    static struct bbpars pars;
    struct event ev; bx_prng rng; rng.idx = 0;
    memset(&ev, 0, sizeof ev); ev._generator_.s = "";
    bx_exc = 0; g_draws = 0;
    bbpars__ctor(&pars);
    event__implicit_ctor(&ev);
    int ier = 0;
    if (ebb1 >= 0) { pars.bx_base_enrange.ebb1 = ebb1; pars.bx_base_enrange.ebb2 = ebb2; }
    bx_string nm; nm.s = name; nm.n = strlen(name);
    genbbsub(&rng, &ev, dbd ? 1 : 2, &nm, level, mode, -1, &ier, &pars);
    int exc = bx_exc;
    printf("I ier=%d exc=%d draws=%lu", ier, exc, g_draws);
    if (dbd && !exc && ier == 0) printf(" Qbb=%a e0=%a toall=%a levelE=%d itrans=%d spmax=%a", pars.Qbb, pars.bx_base_helpbb.e0, pars.bx_base_enrange.toallevents, pars.bx_base_enrange.levelE, pars.bx_base_enrange.itrans02, pars.spmax);
    printf("\n");
    if (ier != 0 || exc) continue;
    use_pre = 1;
    for (int i = 0; i < nev; i++) {
      event__reset(&ev);
      g_draws = 0; bx_exc = 0;
      if (target_fn) nrec = 0;
      genbbsub(&rng, &ev, dbd ? 1 : 2, &nm, level, mode, 1, &ier, &pars);
      dump(&ev, g_draws, bx_exc);
      if (target_fn) { printf("U %d", nrec); for (int k = 0; k < nrec; k++) printf(" %.17g", rec[k]); printf("\n"); }
    }
    target_fn = 0;
  }
  return 0;
}
'''


def sh(cmd, **kw):
    return subprocess.run(cmd, stdout=subprocess.PIPE, stderr=subprocess.STDOUT, **kw)


def headers_hash():
    h = hashlib.sha256()
    d = os.path.join(REPO, 'bxdecay0')
    for f in sorted(os.listdir(d)):
        if f.endswith('.h'):
            h.update(open(os.path.join(d, f), 'rb').read())
    return h.hexdigest()[:16]


def build_real(flags=('-O1',), jobs=16):
    """compile the plumbing TUs of /repo + driver -> executable path"""
    tag = hashlib.sha256((' '.join(flags)).encode()).hexdigest()[:8]
    odir = os.path.join(NAT, 'real_' + tag)
    os.makedirs(odir, exist_ok=True)
    hh = headers_hash()
    srcs = extract.plumbing_files()
    drv = os.path.join(odir, 'driver.cc')
    if not os.path.exists(drv) or open(drv).read() != CXX_DRIVER:
        open(drv, 'w').write(CXX_DRIVER)
    srcs = srcs + [drv]
    objs = []
    todo = []
    for s in srcs:
        key = hashlib.sha256(open(s, 'rb').read() + hh.encode()).hexdigest()[:16]
        o = os.path.join(odir, os.path.basename(s) + '.' + key + '.o')
        objs.append(o)
        if not os.path.exists(o):
            todo.append((s, o))

    def cc(so):
        s, o = so
        r = sh(['g++', '-std=c++11', '-c', '-I' + REPO] + list(flags) + ['-o', o + '.tmp', s])
        if r.returncode != 0:
            return s + ': ' + r.stdout.decode()[-2000:]
        os.rename(o + '.tmp', o)
        return None
    with ThreadPoolExecutor(jobs) as ex:
        errs = [e for e in ex.map(cc, todo) if e]
    if errs:
        raise RuntimeError('real build failed:\n' + '\n'.join(errs))
    exe = os.path.join(odir, 'real_driver.' + hashlib.sha256(' '.join(objs).encode()).hexdigest()[:12])
    if not os.path.exists(exe):
        r = sh(['g++'] + list(flags) + ['-o', exe] + objs + ['-lgsl', '-lgslcblas', '-lm'])
        if r.returncode != 0:
            raise RuntimeError('real link failed: ' + r.stdout.decode()[-3000:])
        # drop stale objects/executables
        keep = set(objs) | {exe, drv}
        for f in os.listdir(odir):
            p = os.path.join(odir, f)
            if p not in keep:
                os.remove(p)
    return exe


def build_rendered(db, flags=('-O1',)):
    odir = os.path.join(NAT, 'rend')
    os.makedirs(odir, exist_ok=True)
    T = db['types']
    mt = maythrow(db)
    out = ['/* rendered by bx2c */']
    for name in closure(db, ['genbbsub', 'bbpars__ctor', 'event__implicit_ctor', 'event__reset']):
        out.append(bx2c.Printer(T, bx2c.Opts(), maythrow=mt).function(db['funcs'][name]))
    body = '\n'.join(out) + '\n'
    th, _ = extract.types_h(db)
    ph = extract.protos_h(db)
    key = hashlib.sha256((body + th + ph + C_DRIVER + open(os.path.join(VERIF, 'shim', 'bx_shim.h')).read()
                          + open(os.path.join(VERIF, 'shim', 'bx_shim_fn.h')).read() + ' '.join(flags)).encode()).hexdigest()[:16]
    exe = os.path.join(odir, 'rend_driver.' + key)
    if os.path.exists(exe):
        return exe
    for f in os.listdir(odir):
        os.remove(os.path.join(odir, f))
    open(os.path.join(odir, 'types.h'), 'w').write(th)
    open(os.path.join(odir, 'protos.h'), 'w').write(ph)
    open(os.path.join(odir, 'all.c'), 'w').write(C_DRIVER + body)
    r = sh(['gcc', '-std=gnu11', '-DBX_NATIVE', '-ffp-contract=off', '-w'] + list(flags) + ['-I' + os.path.join(VERIF, 'shim'), '-I' + odir,
            '-o', exe, os.path.join(odir, 'all.c'), '-lgsl', '-lgslcblas', '-lm'])
    if r.returncode != 0:
        raise RuntimeError('rendered build failed: ' + r.stdout.decode()[-3000:])
    return exe


def closure(db, roots):
    seen = []
    todo = list(roots)
    while todo:
        n = todo.pop()
        if n in seen:
            continue
        if n not in db['funcs']:
            raise RuntimeError('function %s is called but was not rendered' % n)
        seen.append(n)
        todo += sorted(db['funcs'][n].calls)
    return sorted(seen)


def maythrow(db):
    mt = {n for n, f in db['funcs'].items() if f.throws}
    ch = True
    while ch:
        ch = False
        for n, f in db['funcs'].items():
            if n not in mt and (f.calls & mt):
                mt.add(n)
                ch = True
    return mt


def run_tasks(exe, tasks, tag, seed=None):
    os.makedirs(os.path.join(NAT, 'tasks'), exist_ok=True)
    tf = os.path.join(NAT, 'tasks', '%s.%d.txt' % (tag, os.getpid()))
    if seed is not None:
        tasks = ['@seed %d' % seed] + list(tasks)
    open(tf, 'w').write('\n'.join(tasks) + '\n')
    env = dict(os.environ)
    env['ASAN_OPTIONS'] = 'detect_leaks=0'
    try:
        # a change that makes a generator loop forever must not hang the check (seen with a sign flipped in fe1_mod1: the
        # rejection loop of bb never accepts): the run is cut and reported, the caller turns that into "undecided" (exit 2)
        r = subprocess.run([exe, tf], stdout=subprocess.PIPE, stderr=subprocess.PIPE, env=env, timeout=int(os.environ.get('VERIF_NATIVE_TIMEOUT', '900')))
    except subprocess.TimeoutExpired as e:
        os.remove(tf)
        return 124, (e.stdout or b'').decode('utf8', 'replace'), 'TIMEOUT: the native run of %s did not finish (non-terminating generation?)' % tag
    os.remove(tf)
    return r.returncode, r.stdout.decode('utf8', 'replace'), r.stderr.decode('utf8', 'replace')


def catalogues():
    """published names from the resource list files"""
    bkg = [l.split()[0] for l in open(os.path.join(REPO, 'resources/description/background_isotopes.lis')) if l.strip() and not l.startswith('#')]
    dbd = [l.split()[0] for l in open(os.path.join(REPO, 'resources/description/dbd_isotopes.lis')) if l.strip() and not l.startswith('#')]
    return bkg, dbd


def selfcheck(db, nev=200, seed=1, jobs=16):
    """bit-for-bit comparison of the rendering with the real library over every published name"""
    t0 = time.time()
    real = build_real()
    rend = build_rendered(db)
    bkg, dbd = catalogues()
    tasks = []
    for i, n in enumerate(bkg):
        tasks.append('B %s %d %d' % (n, nev, seed * 1000 + i))
    k = 0
    for n in dbd:
        for lev in range(0, 4):
            for mode in (1, 4, 5, 10, 12, 16, 20):
                k += 1
                tasks.append('D %s %d %d %d %d' % (n, lev, mode, max(2, nev // 20), seed * 7919 + k))
    chunks = [tasks[i::jobs] for i in range(jobs)]

    def both(ch):
        a = run_tasks(real, ch, 'real%d' % id(ch))
        b = run_tasks(rend, ch, 'rend%d' % id(ch))
        return a, b
    diffs = []
    nevents = 0
    with ThreadPoolExecutor(jobs) as ex:
        for (a, b), ch in zip(ex.map(both, chunks), chunks):
            la = a[1].split('\n')
            lb = b[1].split('\n')
            nevents += sum(1 for x in la if x.startswith('E '))
            if a[0] != 0 or b[0] != 0:
                diffs.append(('exit', a[0], b[0], a[2][-500:], b[2][-500:]))
            if la != lb:
                cur = None
                for x, y in zip(la, lb):
                    if x.startswith('T '):
                        cur = x
                    if x != y:
                        diffs.append((cur, x, y))
                        break
                else:
                    diffs.append(('length', len(la), len(lb)))
    return {'tasks': len(tasks), 'events': nevents, 'diffs': diffs, 'wall_s': time.time() - t0}


if __name__ == '__main__':
    db = extract.extract()
    r = selfcheck(db, nev=int(sys.argv[1]) if len(sys.argv) > 1 else 200)
    print(json.dumps({k: v for k, v in r.items() if k != 'diffs'}))
    for d in r['diffs'][:20]:
        print('DIFF', d)

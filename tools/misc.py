#!/usr/bin/env python3
"""misc.py -- C16 (Gauss-Legendre tables) and C07 (frame / hidden-state scan) obligations."""
import os, sys, re
sys.path.insert(0, os.path.dirname(os.path.abspath(__file__)))
import bx2c, extract, oblig
from bx2c import S, E, Unsupported


def build_c16_tables_query(db, fname):
    """ground obligations on the REAL initialisers of the 6- and 8-point Gauss-Legendre rules in dgmlt1/dgmlt2:
    moments  sum_i w_i t_i^k = (1+(-1)^k)/(k+1)  for k = 0..2n-1 to 1e-13, antisymmetric nodes, symmetric weights"""
    f = db['funcs'][fname]
    tabs = {nm: (t, init) for (nm, t, init, const) in f.statics}
    if 'W' not in tabs or 'T' not in tabs:
        raise Unsupported('%s: static tables W/T not found' % fname)
    o = bx2c.Opts()
    parts = ['#include "bx_shim.h"']
    for nm in ('W', 'T'):
        t, init = tabs[nm]
        m = re.match(r'^const double\s*\[(\d+)\]$', t.strip())
        if not m or init is None or init.k != 'init':
            raise Unsupported('%s: table %s has unexpected shape %s' % (fname, nm, t))
        parts.append('static const double %s[%s] = %s;' % (nm, m.group(1), bx2c.P(init, o)))
    H = ['void harness(void)', '{']
    for (off, n) in ((0, 6), (6, 8)):
        tag = 'C16 %s %d-point rule' % (fname, n)
        for i in range(n // 2):
            H.append('  __CPROVER_assert(T[%d] == -T[%d], "%s: nodes %d and %d are antisymmetric");' % (off + i, off + n - 1 - i, tag, i + 1, n - i))
            H.append('  __CPROVER_assert(W[%d] == W[%d], "%s: weights %d and %d are equal");' % (off + i, off + n - 1 - i, tag, i + 1, n - i))
        for i in range(n):
            H.append('  __CPROVER_assert(W[%d] > 0.0 && T[%d] > -1.0 && T[%d] < 1.0, "%s: weight %d positive, node inside (-1,1)");' % (off + i, off + i, off + i, tag, i + 1))
        for k in range(2 * n):
            H.append('  { double s = 0.0; for (int i = 0; i < %d; i++) { double p = 1.0; for (int j = 0; j < %d; j++) p = p * T[%d + i]; s = s + W[%d + i] * p; }' % (n, k, off, off))
            exact = '%.17g' % (2.0 / (k + 1)) if k % 2 == 0 else '0.0'
            H.append('    __CPROVER_assert(s - %s <= 1e-13 && s - %s >= -1e-13, "%s: integrates x^%d exactly (to 1e-13)"); }' % (exact, exact, tag, k))
    H.append('  __CPROVER_assert(0, "canary %s: harness end is reachable (must be refuted)");' % fname)
    H.append('}')
    parts.append('\n'.join(H))
    return {'c': '\n\n'.join(parts) + '\n', 'entry': 'harness', 'meta': {'function': fname, 'what': 'c16'}}


# ----------------------------------------------------------------------------------------------
# C07: frame scan on the rendered IR (every assignment target is a local, an out-parameter, the object itself, or a
# particle/bbpars reached through a parameter); hidden state = function-local statics that are written after their
# initialisation or initialised from something that can vary
# ----------------------------------------------------------------------------------------------

PURE_NULLARY = ('decay0_emass', 'electron_mass_MeV', 'bx_numeric_limits_double_quiet_NaN', 'bx_sqrt', 'bx_log')


def frame_facts(db):
    """-> list of (function, fact, ok, detail)"""
    out = []
    for name in sorted(db['funcs']):
        f = db['funcs'][name]
        bad = []
        statics = {s[0] for s in f.statics}
        for (kind, nm, t, path) in f.writes:
            if kind in ('local', 'param', 'this'):
                if kind == 'local' and nm in statics:
                    bad.append('write to function-local static %s' % nm)
                continue
            if kind == 'callresult' and re.search(r'grab_|get_particles|grab_last', nm or ''):
                continue
            bad.append('%s %s%s' % (kind, nm, ('.' + path) if path else ''))
        out.append((name, 'writes only locals, out-parameters, its own object and the event/bbpars passed in', not bad, bad))
        for (nm, t, init, const) in f.statics:
            ok = True
            why = []
            if init is not None:
                def chk(e):
                    if e.k == 'var' and e.name not in statics:
                        # reading another write-once static of the same function is still a constant
                        why.append('initialiser of static %s reads variable %s' % (nm, e.name))
                    if e.k == 'call':
                        fn = e.a.name if isinstance(e.a, E) else e.a
                        if fn not in PURE_NULLARY and not str(fn).startswith(('bx_', 'BX_')):
                            why.append('initialiser of static %s calls %s' % (nm, fn))
                bx2c.walk_expr(init, chk)
            out.append((name, 'static local %s is write-once with a constant initialiser' % nm, not why, why))
    return out


def build_shift_query(db):
    """event::shift_particles_time(delta, from): every particle of rank >= from is delayed by delta (a particle without a
    time gets delta), every other particle and every other field is untouched; with delta >= 0 a time-ordered list stays
    ordered.  Unbounded: the loop is cut at its head (label machine), the invariant talks about ONE arbitrary rank j
    (ghost index instead of a quantifier) and the loop counter."""
    import segments, copy
    T = db['types']
    f = db['funcs']['event__shift_particles_time']
    opts = bx2c.Opts(prefix='x_', hoist=True, uf=True)   # structural: the new time is the term  old + delta
    body = segments.lower_loops(copy.deepcopy(f.body))
    cuts = segments.backward_targets(body)
    f2 = copy.copy(f)
    f2.body = body
    decls, seg, ids = segments.segment_function(f2, T, opts, cuts)
    inl = []
    todo = sorted(f.calls)
    while todo:
        c = todo.pop(0)
        if c in db['funcs'] and c not in inl:
            inl.append(c)
            todo += sorted(db['funcs'][c].calls)
    parts = [oblig.prelude(db, '#define BX_CAP 128\n#define BX_UF 1')]
    for c in reversed(inl):
        parts.append(bx2c.Printer(T, bx2c.Opts(uf=True)).function(db['funcs'][c]))
    parts.append(decls)
    parts.append(seg)
    tag = 'C04 event::shift_particles_time'
    inv = ('x_count == x_bx_i1 && x_bx_i1 >= 0 && (unsigned long)x_bx_i1 <= n && ev.data_ok && '
           '(j >= (unsigned long)x_bx_i1 ? same(buf[j]._time_, t0) : same(buf[j]._time_, (j >= (unsigned long)(from < 0 ? 0 : from) ? (t0 == t0 ? bx_add(t0, delta) : delta) : t0))) && buf[j]._code_ == c0 && same(buf[j]._momentum_[0], m0)')
    H = ['static struct particle buf[BX_CAP]; static struct event evs; static unsigned long n, j; static double t0, m0, delta; static int c0, from;',
         'static _Bool same(double a, double b) { return a == b || (a != a && b != b); }',
         'void harness(void)', '{',
         '  n = nondet_ulong(); __CPROVER_assume(n <= BX_CAP); j = nondet_ulong(); __CPROVER_assume(j < n);',
         '  evs._particles_.data = buf; evs._particles_.size = n; evs._particles_.cap = BX_CAP; evs._time_ = nondet_double();',
         '  delta = nondet_double(); from = nondet_int(); t0 = nondet_double(); m0 = nondet_double(); c0 = nondet_int();',
         '  x_this_ = &evs; x_delta_time_ = delta; x_from_ = from; bx_exc = 0;',
         '  int pc = nondet_int(); __CPROVER_assume(pc >= 0 && pc <= %d);' % len(cuts),
         '  if (pc == 0) { buf[j]._time_ = t0; buf[j]._code_ = c0; buf[j]._momentum_[0] = m0; }',
         '  else { x_count = nondet_int(); x_bx_i1 = nondet_int(); __CPROVER_assume(x_count == x_bx_i1 && x_bx_i1 >= 0 && (unsigned long)x_bx_i1 <= n);',
         '         /* the invariant about rank j, installed as a definition (the uninterpreted + is sensitive to -0/NaN payloads) */',
         '         buf[j]._time_ = (j >= (unsigned long)x_bx_i1) ? t0 : ((j >= (unsigned long)(from < 0 ? 0 : from)) ? (t0 == t0 ? bx_add(t0, delta) : delta) : t0); buf[j]._code_ = c0; buf[j]._momentum_[0] = m0; }',
         '  const double ev_time0 = evs._time_;',
         '  int nx = event__shift_particles_time_seg(pc);',
         '  __CPROVER_assert(evs._particles_.size == n && evs._particles_.data == buf && same(evs._time_, ev_time0), "%s: count, storage and event time untouched");' % tag,
         '  if (nx == %d) {' % segments.BX_EXIT,
         '    __CPROVER_assert(j < (unsigned long)(from < 0 ? 0 : from) ? same(buf[j]._time_, t0) : same(buf[j]._time_, (t0 == t0 ? bx_add(t0, delta) : delta)), "%s: rank >= from delayed by delta, lower ranks untouched (arbitrary rank j)");' % tag,
         '    __CPROVER_assert(buf[j]._code_ == c0 && same(buf[j]._momentum_[0], m0), "%s: species and momentum untouched");' % tag,
         '  } else {',
         '    __CPROVER_assert(nx >= 1 && nx <= %d, "label machine: successor is a cut point");' % len(cuts),
         '    __CPROVER_assert(x_count == x_bx_i1 && x_bx_i1 >= 0 && (unsigned long)x_bx_i1 <= n, "%s: loop invariant (counters) preserved");' % tag,
         '    __CPROVER_assert(%s, "%s: loop invariant preserved");' % (inv.replace('ev.data_ok && ', ''), tag),
         '  }',
         '  __CPROVER_assert(0, "canary shift_particles_time: harness end is reachable (must be refuted)");',
         '}']
    parts.append('\n'.join(H))
    return {'c': '\n\n'.join(parts) + '\n', 'entry': 'harness', 'meta': {'function': 'event__shift_particles_time', 'what': 'c04', 'cuts': cuts}}


def build_shift_lemma_query():
    """IEEE fact used with the structural contract above: adding a non-negative delay to a non-negative time never gives
    an earlier time (so a time-ordered list shifted from rank `from` on stays ordered when delta >= 0)"""
    c = '''double nondet_double(void);
void harness(void)
{
  double t = nondet_double(), u = nondet_double(), d = nondet_double();
  __CPROVER_assume(t >= 0.0 && u >= t && d >= 0.0);
  __CPROVER_assert(t + d >= t, "C04 shift lemma: t + delta >= t for t, delta >= 0 (IEEE double)");
  __CPROVER_assert(u + d >= t + d, "C04 shift lemma: shifting two ordered times by the same delay keeps their order");
  __CPROVER_assert(u + d >= t, "C04 shift lemma: a shifted later particle is not before an unshifted earlier one");
  __CPROVER_assert(0, "canary shift lemma: harness end is reachable (must be refuted)");
}
'''
    return {'c': c, 'entry': 'harness', 'meta': {'function': 'event__shift_particles_time', 'what': 'c04'}}

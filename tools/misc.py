#!/usr/bin/env python3
"""misc.py -- C16 (Gauss-Legendre tables) and C07 (frame / hidden-state scan) obligations."""
import os, sys, re
sys.path.insert(0, os.path.dirname(os.path.abspath(__file__)))
import bx2c, extract, oblig
from bx2c import S, E, Unsupported


def build_c16_tables_query(db, fname):
    """ground obligations on the REAL initialisers of the 6- and 8-point Gauss-Legendre rules in dgmlt1/dgmlt2:
    moments  sum_i w_i t_i^k = (1+(-1)^k)/(k+1)  for k = 0..2n-1 to 1e-13, antisymmetric nodes, symmetric weights"""
    f = db['funcs'][fname]
    tabs = {nm: (t, init) for (nm, t, init, const) in f.statics}
    if 'W' not in tabs or 'T' not in tabs:
        raise Unsupported('%s: static tables W/T not found' % fname)
    o = bx2c.Opts()
    parts = ['#include "bx_shim.h"']
    for nm in ('W', 'T'):
        t, init = tabs[nm]
        m = re.match(r'^const double\s*\[(\d+)\]$', t.strip())
        if not m or init is None or init.k != 'init':
            raise Unsupported('%s: table %s has unexpected shape %s' % (fname, nm, t))
        parts.append('static const double %s[%s] = %s;' % (nm, m.group(1), bx2c.P(init, o)))
    H = ['void harness(void)', '{']
    for (off, n) in ((0, 6), (6, 8)):
        tag = 'C16 %s %d-point rule' % (fname, n)
        for i in range(n // 2):
            H.append('  __CPROVER_assert(T[%d] == -T[%d], "%s: nodes %d and %d are antisymmetric");' % (off + i, off + n - 1 - i, tag, i + 1, n - i))
            H.append('  __CPROVER_assert(W[%d] == W[%d], "%s: weights %d and %d are equal");' % (off + i, off + n - 1 - i, tag, i + 1, n - i))
        for i in range(n):
            H.append('  __CPROVER_assert(W[%d] > 0.0 && T[%d] > -1.0 && T[%d] < 1.0, "%s: weight %d positive, node inside (-1,1)");' % (off + i, off + i, off + i, tag, i + 1))
        for k in range(2 * n):
            H.append('  { double s = 0.0; for (int i = 0; i < %d; i++) { double p = 1.0; for (int j = 0; j < %d; j++) p = p * T[%d + i]; s = s + W[%d + i] * p; }' % (n, k, off, off))
            exact = '%.17g' % (2.0 / (k + 1)) if k % 2 == 0 else '0.0'
            H.append('    __CPROVER_assert(s - %s <= 1e-13 && s - %s >= -1e-13, "%s: integrates x^%d exactly (to 1e-13)"); }' % (exact, exact, tag, k))
    H.append('  __CPROVER_assert(0, "canary %s: harness end is reachable (must be refuted)");' % fname)
    H.append('}')
    parts.append('\n'.join(H))
    return {'c': '\n\n'.join(parts) + '\n', 'entry': 'harness', 'meta': {'function': fname, 'what': 'c16'}}


# ----------------------------------------------------------------------------------------------
# C07: frame scan on the rendered IR (every assignment target is a local, an out-parameter, the object itself, or a
# particle/bbpars reached through a parameter); hidden state = function-local statics that are written after their
# initialisation or initialised from something that can vary
# ----------------------------------------------------------------------------------------------

PURE_NULLARY = ('decay0_emass', 'electron_mass_MeV', 'bx_numeric_limits_double_quiet_NaN', 'bx_sqrt', 'bx_log')


def frame_facts(db):
    """-> list of (function, fact, ok, detail)"""
    out = []
    for name in sorted(db['funcs']):
        f = db['funcs'][name]
        bad = []
        statics = {s[0] for s in f.statics}
        for (kind, nm, t, path) in f.writes:
            if kind in ('local', 'param', 'this'):
                if kind == 'local' and nm in statics:
                    bad.append('write to function-local static %s' % nm)
                continue
            if kind == 'callresult' and re.search(r'grab_|get_particles|grab_last', nm or ''):
                continue
            bad.append('%s %s%s' % (kind, nm, ('.' + path) if path else ''))
        out.append((name, 'writes only locals, out-parameters, its own object and the event/bbpars passed in', not bad, bad))
        for (nm, t, init, const) in f.statics:
            ok = True
            why = []
            if init is not None:
                def chk(e):
                    if e.k == 'var' and e.name not in statics:
                        # reading another write-once static of the same function is still a constant
                        why.append('initialiser of static %s reads variable %s' % (nm, e.name))
                    if e.k == 'call':
                        fn = e.a.name if isinstance(e.a, E) else e.a
                        if fn not in PURE_NULLARY and not str(fn).startswith(('bx_', 'BX_')):
                            why.append('initialiser of static %s calls %s' % (nm, fn))
                bx2c.walk_expr(init, chk)
            out.append((name, 'static local %s is write-once with a constant initialiser' % nm, not why, why))
    return out

"""C08 safety contracts of the numerical helpers (contracts/safety.contract): table indices, integer arithmetic, conversions.

label-machine mode: the function is cut at its loop heads (segments.py); each segment starts from a havocked state that
satisfies the precondition and the invariants of its cut point and must re-establish the invariants where it arrives;
CBMC's bounds/overflow/conversion checks are the obligations.  unwind mode: only where the precondition fixes every size
(the single call site's constants), so that unwinding with unwinding assertions is complete.
Products of two non-literal doubles and quotients are uninterpreted (values never reach an index)."""
import copy
import os
import re
import bx2c
import extract
import oblig
import segments

PRE = '''
double __CPROVER_uninterpreted_mulx(double, double); double __CPROVER_uninterpreted_divx(double, double);
static double bx_mulx(double a, double b) { return __CPROVER_uninterpreted_mulx(a, b); }
static double bx_divx(double a, double b) { return __CPROVER_uninterpreted_divx(a, b); }
static double bx_scale(double u, double x) { return bx_mulx(u, x); }
static _Bool sk_same(double a, double b) { return a == b || (a != a && b != b); }
'''
CHECKS = ['--no-standard-checks', '--bounds-check', '--pointer-check', '--conversion-check', '--div-by-zero-check', '--signed-overflow-check']


def parse(path):
    out = {}
    cur = None
    for ln in open(path):
        ln = re.sub(r'\s+#.*$', '', ln.rstrip('\n'))
        if not ln.strip() or ln.lstrip().startswith('#'):
            continue
        m = re.match(r'^function (\w+)$', ln)
        if m:
            cur = {'name': m.group(1), 'mode': 'label-machine', 'requires': [], 'arrays': {}, 'fnptr': [], 'invariant': [], 'at': {}, 'c16': {}}
            out[cur['name']] = cur
            continue
        m = re.match(r'^mode:\s*(.*)$', ln)
        if m:
            cur['mode'] = m.group(1).strip()
            continue
        m = re.match(r'^(requires|invariant):\s*(.*)$', ln)
        if m:
            cur[m.group(1)].append(m.group(2).strip())
            continue
        m = re.match(r'^array (\w+) (\d+)$', ln)
        if m:
            cur['arrays'][m.group(1)] = int(m.group(2))
            continue
        m = re.match(r'^fnptr (\w+)$', ln)
        if m:
            cur['fnptr'].append(m.group(1))
            continue
        m = re.match(r'^at (\w+):\s*(.*)$', ln)
        if m:
            cur['at'].setdefault(m.group(1), []).append(m.group(2).strip())
            continue
        m = re.match(r'^c16 at (\w+):\s*(.*)$', ln)
        if m:
            cur['c16'].setdefault(m.group(1), []).append(m.group(2).strip())
            continue
        raise ValueError('safety.contract: cannot parse: ' + ln)
    return out


def build(db, spec):
    """-> list of queries for one function contract"""
    T = db['types']
    name = spec['name']
    f = db['funcs'][name]
    pnames = [p[1] for p in f.params]
    G = []
    setup = []
    for (pre, nm, t, isref) in f.params:
        tt = bx2c.strip_cv(t.replace('bxdecay0::', ''))
        if nm in spec['arrays']:
            n = spec['arrays'][nm]
            G.append('static double sk_%s[%d];' % (nm, n))
            setup.append('  __CPROVER_havoc_object(sk_%s); ARG(%s) = sk_%s;' % (nm, nm, nm))
        elif nm in spec['fnptr']:
            setup.append('  ARG(%s) = sk_fsub;' % nm)
        elif tt == 'double':
            setup.append('  ARG(%s) = nondet_double();' % nm)
        elif tt in ('int', 'bool'):
            setup.append('  ARG(%s) = nondet_int();' % nm)
        elif tt == 'void *':
            setup.append('  ARG(%s) = (void *)0;' % nm)
        else:
            raise bx2c.Unsupported('%s: parameter %s of type %s' % (name, nm, t))
    if spec['fnptr']:
        G.append('/* the integrand callback: fills its output array (any values), may store the abscissa in x[0], x[1]; nothing else */')
        G.append('static void sk_fsub(int m, double *u, double *f, double *x, void *p) { __CPROVER_havoc_object(f); x[0] = nondet_double(); x[1] = nondet_double(); }')
    th, _ = extract.types_h(db)
    head = ['#include "bx_shim.h"', th, '#include "bx_shim_fn.h"', extract.protos_h(db), 'int bx_exc; unsigned long g_draws; double g_tlast, g_evis, g_enom, g_pairE; unsigned long g_np;',
            '#include "bx_models.h"', PRE] + G
    queries = []
    if spec['mode'].startswith('unwind'):
        k = int(spec['mode'].split()[1])
        o = bx2c.Opts()
        o.abstract_nonlinear = True
        pr = bx2c.Printer(T, o)
        H = ['void harness(void)', '{']
        args = []
        for (pre, nm, t, isref) in f.params:
            H.append('  %s;' % T.decl(bx2c.strip_cv(t) if '*' not in t else t.replace('const ', ''), 'x_' + nm))
            args.append('x_' + nm)
        H += [s.replace('ARG(', '(x_') for s in setup]
        for r in spec['requires']:
            H.append('  __CPROVER_assume(%s);' % r)
        H.append('  bx_exc = 0;')
        H.append('  %s(%s);' % (name, ', '.join(args)))
        H.append('  __CPROVER_assert(!bx_exc, "C08 %s: no exception under the call-site precondition");' % name)
        H.append('  __CPROVER_assert(0, "canary %s: harness end is reachable (must be refuted)");' % name)
        H.append('}')
        meta = {'function': name, 'what': 'safek', 'mode': spec['mode'], 'requires': spec['requires'],
                'note': 'sizes fixed by the precondition: unwinding %d with unwinding assertions is complete' % k}
        queries.append({'c': '\n\n'.join(head + [pr.function(f), '\n'.join(H)]) + '\n', 'entry': 'harness', 'meta': meta,
                        'extra': ('--unwind', str(k), '--unwinding-assertions'), 'qid': 'safek/%s' % name})
        return queries
    o = bx2c.Opts(prefix='x_', hoist=True)
    o.abstract_nonlinear = True
    body = segments.lower_loops(copy.deepcopy(f.body)) if segments.has_structured_loop(f.body) else f.body
    cuts = [n for k_, n in segments.order_positions(body) if k_ == 'label' and re.match(r'^bx_loop\d+_head$', n)]
    cuts += [l for l in segments.backward_targets(body) if l not in cuts]
    decls, seg, ids = segments.segment_function(f, T, o, cuts, segname='sk_seg')
    # const static tables (write-once, constant initialisers: C07 frame scan) hold their REAL initialisers in every segment
    tabinit = []
    for (nm, t, init, const) in f.statics:
        m = re.match(r'^const double\s*\[(\d+)\]$', t.strip())
        if spec['c16'] and m and const and init is not None and init.k == 'init':
            tabinit.append('  { static const double sk_t_%s[%s] = %s; for (int sk_i = 0; sk_i < %s; sk_i++) x_%s[sk_i] = sk_t_%s[sk_i]; }'
                           % (nm, m.group(1), bx2c.P(init, bx2c.Opts()), m.group(1), nm, nm))
    for c_ in list(spec['at']) + list(spec['c16']):
        if c_ not in ids:
            raise bx2c.Unsupported('%s: the contract names cut point %s, the rendering has %s' % (name, c_, cuts))
    for pc in [0] + [ids[c_] for c_ in cuts]:
        cname = ([None] + cuts)[pc]
        tag = '%s seg@%s' % (name, cname or 'entry')
        H = ['void harness(void)', '{', '  bx_exc = 0;']
        H += [s.replace('ARG(', '(x_') for s in setup]
        for r in spec['requires']:
            H.append('  __CPROVER_assume(%s);' % r)
        if pc != 0:
            for (t, nm, did) in f.locals:
                tt = bx2c.strip_cv(t.replace('bxdecay0::', ''))
                if tt in ('double', 'int', 'bool'):
                    H.append('  x_%s = nondet_%s();' % (nm, 'double' if tt == 'double' else 'int'))
                elif re.match(r'^double\s*\[\d+\]$', tt):
                    H.append('  __CPROVER_havoc_object(x_%s);' % nm)
            H += tabinit
            for x in spec['invariant'] + spec['at'].get(cname, []) + spec['c16'].get(cname, []):
                H.append('  __CPROVER_assume(%s);' % x)
        H.append('  int nx = sk_seg(%d);' % pc)
        H.append('  __CPROVER_assert(nx == %d || (nx >= 1 && nx <= %d), "C08 label machine %s: successor is a cut point");' % (segments.BX_EXIT, len(cuts), tag))
        for j, x in enumerate(spec['invariant']):
            H.append('  __CPROVER_assert(nx == %d || (%s), "C08 %s: invariant #%d holds at the next cut point");' % (segments.BX_EXIT, x, tag, j + 1))
        for c_, xs in sorted(spec['at'].items()):
            for j, x in enumerate(xs):
                H.append('  __CPROVER_assert(nx != %d || (%s), "C08 %s: loop invariant #%d of %s holds on arrival");' % (ids[c_], x, tag, j + 1, c_))
        for c_, xs in sorted(spec['c16'].items()):
            for j, x in enumerate(xs):
                H.append('  __CPROVER_assert(nx != %d || (%s), "C16 %s: pairing clause #%d of %s holds on arrival (weight w_i travels with the abscissa built from node t_i)");' % (ids[c_], x, tag, j + 1, c_))
        H.append('  __CPROVER_assert(0, "canary %s: harness end is reachable (must be refuted)");' % tag)
        H.append('}')
        meta = {'function': name, 'what': 'safek', 'mode': 'label-machine', 'cut': cname, 'cuts': cuts, 'requires': spec['requires']}
        queries.append({'c': '\n\n'.join(head + [decls, seg, '\n'.join(H)]) + '\n', 'entry': 'harness', 'meta': meta, 'extra': (),
                        'qid': 'safek/%s/seg@%s' % (name, cname or 'entry')})
    return queries


def all_queries(db, path):
    out, skipped = [], []
    for name, spec in sorted(parse(path).items()):
        if name not in db['funcs']:
            skipped.append((name, 'NOT COVERED: function not rendered'))
            continue
        try:
            out += build(db, spec)
        except bx2c.Unsupported as e:
            skipped.append((name, 'NOT COVERED: ' + str(e)[:300]))
    return out, skipped

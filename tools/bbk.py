"""single-program contract of decay0_bb (contracts/bb.contract): C08 (table indices, float->int conversions) and the C03 energy
budget / energy-window clauses of the primary double-beta process.

The body of decay0_bb is rendered by bx2c from the clang AST on every run (IEEE doubles, real arrays of the real bbpars
struct) and cut into loop-free segments at its loop heads and backward labels (segments.py); every segment starts from a
havocked state that satisfies the preconditions + invariants of the contract and must re-establish them at the cut point
it arrives at, so loops are closed without unwinding.  One query per (cut point, legacy mode): the mode is a constant in
each query.

Callees are stubs: fe*_mod*, gauss, dgmlt1, tgold and fermi return ANY double (their values only feed comparisons and the
table contents, never an index); decay0_particle and event::add_particle record what is emitted.

Abstraction (listed as an assumption in the evidence): a product deviate*x is ANY value between 0 and x (bx_scale).
"""
import copy
import re
import bx2c
import extract
import segments

SPEC = None
CUTS = ['bx_loop1_head', 'bx_loop2_head', 'label_1', 'label_4', 'bx_loop3_head', 'bx_loop4_head', 'bx_loop5_head']
M2 = (4, 5, 6, 8, 13, 14, 15, 16, 19)
NCALL = 4


def parse_spec(path):
    sp = {'requires': [], 'requires_init': [], 'requires_gen': [], 'invariant': [], 'at': {}, 'ensures': [], 'define': {}, 'lemma': {}}
    for ln in open(path):
        ln = re.sub(r'\s+#.*$', '', ln.rstrip('\n'))
        if not ln.strip() or ln.lstrip().startswith('#'):
            continue
        m = re.match(r'^(requires|requires_init|requires_gen|invariant):\s*(.*)$', ln)
        if m:
            sp[m.group(1)].append(m.group(2).strip())
            continue
        m = re.match(r'^at (\w+):\s*(.*)$', ln)
        if m:
            sp['at'].setdefault(m.group(1), []).append(m.group(2).strip())
            continue
        m = re.match(r'^lemma (\w+):\s*(.*?)\s*==>\s*(.*)$', ln)
        if m:
            sp['lemma'][m.group(1)] = (m.group(2).strip(), m.group(3).strip())
            continue
        m = re.match(r'^define (\w+):\s*(.*)$', ln)
        if m:
            sp['define'][m.group(1)] = m.group(2).strip()
            continue
        m = re.match(r'^ensures(?:\[([\d,]+)\])? at (\w+):\s*(.*)$', ln)
        if m:
            modes = [int(x) for x in m.group(1).split(',')] if m.group(1) else None
            sp['ensures'].append((modes, m.group(2), m.group(3).strip()))
            continue
        raise ValueError('bb.contract: cannot parse: ' + ln)

    def expand(t):
        for k, v in sp['define'].items():
            t = re.sub(r'\b%s\b' % k, '(' + v + ')', t)
        return t
    for k in ('requires', 'requires_init', 'requires_gen', 'invariant'):
        sp[k] = [expand(x) for x in sp[k]]
    sp['at'] = {k: [expand(x) for x in v] for k, v in sp['at'].items()}
    sp['ensures'] = [(m, c, expand(t)) for m, c, t in sp['ensures']]
    return sp


def plan():
    out = []
    for k in range(len(CUTS) + 1):
        name = (['entry'] + CUTS)[k]
        for m in range(1, 21):
            if k > 0 and m in (9, 11, 12):
                continue
            if name == 'label_4' and m != 20:
                continue
            if name in ('bx_loop3_head', 'bx_loop4_head') and m not in M2:
                # (one query with the mode symbolic over the nine was tried: 21 min instead of nine parallel 11 min queries;
                # build() still accepts a tuple of modes)
                continue
            if name == 'bx_loop5_head' and m in (10, 20):
                continue
            if name in ('bx_loop1_head', 'bx_loop2_head') and False:
                continue
            out.append((k, name, m))
    return out


def e0f_expr(mode):
    if mode in (9, 10):
        return '(((S.Qbb - S.Edlevel) - S.EK) - (2. * BB_EMASS))'
    if mode in (11, 12):
        return '((S.Qbb - S.Edlevel) - (2. * S.EK))'
    return '(S.Zdbb >= 0. ? (S.Qbb - S.Edlevel) : ((S.Qbb - S.Edlevel) - (4. * BB_EMASS)))'


def index_obligations(text):
    out = []
    i = 0
    n = 0
    while True:
        m = re.search(r'\bx_spthe([12])\[', text[i:])
        if not m:
            out.append(text[i:])
            break
        a = i + m.start()
        b = i + m.end()
        depth = 1
        j = b
        while depth:
            if text[j] == '[':
                depth += 1
            elif text[j] == ']':
                depth -= 1
            j += 1
        inner, _ = index_obligations(text[b:j - 1])
        out.append(text[i:a])
        out.append('S.spthe%s[bbk_ix(%s)]' % (m.group(1), inner))
        n += 1
        i = j
    return ''.join(out), n


def build(db, spec_path, k, mode):
    """query for the segment that starts at cut point k (0 = entry) with the legacy mode `mode`"""
    sp = parse_spec(spec_path)
    T = db['types']
    fx = db['funcs']['decay0_bb']
    o = bx2c.Opts(uf=False, prefix='x_', hoist=True)
    o.scale_draw = True
    o.abstract_nonlinear = True
    decls, seg, ids = segments.segment_function(fx, T, o, CUTS, segname='bb_seg')
    # the routine reaches the tables through  double * spthe1 = pars->spthe1 : CBMC's pointer check only knows the bounds
    # of the whole bbpars object (an index of 4300 lands in the neighbouring member and is NOT flagged - found by a
    # deliberate off-by-one).  Every access  x_spthe<n>[e]  is therefore rewritten to the member array with an explicit
    # index obligation.
    seg, nacc = index_obligations(seg)
    if nacc < 10:
        raise bx2c.Unsupported('decay0_bb: only %d table accesses found (expected the spectrum loops)' % nacc)
    pr = bx2c.Printer(T, bx2c.Opts())
    th, _ = extract.types_h(db)
    parts = ['#include "bx_shim.h"', th, '#include "bx_shim_fn.h"', extract.protos_h(db),
             'int bx_exc; unsigned long g_draws; double g_tlast, g_evis, g_enom, g_pairE; unsigned long g_np;',
             '#include "bx_models.h"',
             'static struct bbpars S; static bx_prng rng; static struct event ev;',
             '/* deviate * x, 0 < deviate < 1: any value between 0 and x (monotone rounding) */',
             'static double bx_scale(double u, double x) { double r = nondet_double(); __CPROVER_assume(x >= 0.0 ? (r >= 0.0 && r <= x) : (x < 0.0 ? (r <= 0.0 && r >= x) : r != r)); return r; }',
             '/* products of two non-literal doubles and all quotients: uninterpreted (any function of the operands) */',
             'double __CPROVER_uninterpreted_mulx(double, double); double __CPROVER_uninterpreted_divx(double, double);',
             'static double bx_mulx(double a, double b) { return __CPROVER_uninterpreted_mulx(a, b); }',
             '/* AXIOM div-range (IEEE division is monotone): a >= 0 and b >= 0.5  =>  0 <= a/b <= 2a ; a > 1e-300 and 0.5 <= b <= 1e300  =>  a/b > 0 */',
             'static double bx_divx(double a, double b) { double r = __CPROVER_uninterpreted_divx(a, b); __CPROVER_assume(!(a >= 0.0 && a <= 1.0e300 && b >= 0.5) || (r >= 0.0 && r <= 2.0 * a)); __CPROVER_assume(!(a >= 1.0e-300 && a <= 1.0e300 && b >= 0.5 && b <= 1.0e300) || r > 0.0); return r; }',
             '/* equality of two renderings of the same value (NaN equals NaN) */',
             'static _Bool bx_eq(double a, double b) { return a == b || (a != a && b != b); }',
             'static int bbk_ix(int i) { __CPROVER_assert(i >= 0 && i < 4300, "C08 decay0_bb: index into spthe1/spthe2 inside the 4300-entry table"); return i; }',
             'static int bb_ncall, bb_nadd, bb_iso_ok; static int bb_call_code[%d], bb_add_code[2]; static double bb_call_e1[%d], bb_call_e2[%d], bb_add_pz[2], bb_add_time[2];' % (NCALL, NCALL, NCALL)]
    stubs = []
    inline = ('particle__ctor', 'particle__set_time', 'particle__set_code', 'particle__set_momentum', 'particle__set_px', 'particle__set_py', 'particle__set_pz',
              'decay0_emass', 'electron_mass_MeV', 'particle_mass_MeV')
    todo = sorted(fx.calls)
    inl = []
    callees = []
    while todo:
        c = todo.pop(0)
        if c in inline and c in db['funcs']:
            if c not in inl:
                inl.append(c)
                todo += sorted(db['funcs'][c].calls)
        elif c not in callees:
            callees.append(c)
    for c in sorted(callees):
        g = db['funcs'].get(c)
        if g is None:
            raise bx2c.Unsupported('callee %s of decay0_bb is not rendered' % c)
        sig = pr.signature(g)
        pn = [p[1] for p in g.params]
        if re.match(r'^decay0_fe\d+_mod\d+$', c) or c in ('decay0_gauss', 'decay0_fermi', 'decay0_dgmlt1'):
            stubs.append(sig + '\n{\n  return nondet_double();   /* any value: feeds table contents and comparisons only */\n}')
        elif c == 'decay0_dshelp1':
            stubs.append(sig + '\n{\n}')
        elif c == 'decay0_tgold':
            stubs.append(sig + '\n{\n  *%s = nondet_double(); *%s = nondet_double();\n}' % (pn[6], pn[7]))
        elif c == 'decay0_particle':
            # decay0_particle(prng, event, np, E1, E2, teta1, teta2, phi1, phi2, tclev, thlev, &tdlev)
            stubs.append(sig + '\n{\n  __CPROVER_assert(bb_ncall < %d, "decay0_bb: at most %d emission calls");\n'
                         '  bb_call_code[bb_ncall] = (int)%s; bb_call_e1[bb_ncall] = %s; bb_call_e2[bb_ncall] = %s;\n'
                         '  if (!(%s == 0.0 && %s == x_pi && %s == 0.0 && %s == x_twopi && %s == 0.0 && %s == 0.0)) bb_iso_ok = 0;\n'
                         '  bb_ncall = bb_ncall + 1; *%s = nondet_double();\n}' % (NCALL, NCALL, pn[2], pn[3], pn[4], pn[5], pn[6], pn[7], pn[8], pn[9], pn[10], pn[11]))
        elif c == 'event__add_particle':
            stubs.append(sig + '\n{\n  __CPROVER_assert(bb_nadd < 2, "decay0_bb: at most two particles appended directly");\n'
                         '  bb_add_code[bb_nadd] = (int)%s->_code_; bb_add_time[bb_nadd] = %s->_time_; bb_add_pz[bb_nadd] = %s->_momentum_[2]; bb_nadd = bb_nadd + 1;\n}' % (pn[1], pn[1], pn[1]))
        else:
            raise bx2c.Unsupported('decay0_bb calls %s: no stub' % c)
    parts.append(decls)
    parts += stubs
    for c in reversed(inl):
        parts.append(pr.function(db['funcs'][c]))
    parts.append(seg)
    # ---- harness ---------------------------------------------------------------------------------------------------------
    cname = (['entry'] + CUTS)[k]
    mset = tuple(mode) if isinstance(mode, (tuple, list)) else (mode,)
    tag = 'decay0_bb seg@%s mode %s' % (cname, mode if len(mset) == 1 and not isinstance(mode, (tuple, list)) else 'in {%s}' % ','.join(str(x) for x in mset))
    e0f = e0f_expr(mset[0])
    assert len({e0f_expr(x) for x in mset}) == 1

    def cl(t):
        return t.replace('E0F', 'bb_e0f')
    H = ['void harness(void)', '{']
    H.append('  const double BB_EMASS = decay0_emass();')
    H.append('  /* the parameter block: any contents (tables included), then the preconditions */')
    H.append('  __CPROVER_havoc_object(&S);')
    for fld, ct in (('Qbb', 'double'), ('Edlevel', 'double'), ('EK', 'double'), ('Zdbb', 'double'), ('Adbb', 'double'), ('spmax', 'double'),
                    ('bx_base_enrange.ebb1', 'double'), ('bx_base_enrange.ebb2', 'double'), ('bx_base_enrange.toallevents', 'double'),
                    ('bx_base_denrange.dens', 'double'), ('bx_base_denrange.denf', 'double'), ('bx_base_helpbb.Zd', 'double'), ('bx_base_helpbb.Ad', 'double'),
                    ('bx_base_helpbb.e0', 'double'), ('bx_base_helpbb.e1', 'double')):
        H.append('  S.%s = nondet_double();' % fld)
    H.append('  S.bx_base_denrange.mode = nondet_int(); S.istartbb = nondet_int();')
    if len(mset) == 1:
        H.append('  S.modebb = %d;' % mset[0])
    else:
        H.append('  S.modebb = nondet_int(); __CPROVER_assume(%s);' % ' || '.join('S.modebb == %d' % x for x in mset))
    H.append('  const double bb_e0f = %s;' % e0f)
    for r_ in sp['requires']:
        H.append('  __CPROVER_assume(%s);' % cl(r_))
    H.append('  x_params_ = (void *)&S; x_prng_ = &rng; x_event_ = &ev; bx_exc = 0; bb_ncall = 0; bb_nadd = 0; bb_iso_ok = 1;')
    if k == 0:
        H.append('  if (S.istartbb == 0) { __CPROVER_assume(%s); } else { __CPROVER_assume(%s); }' %
                 (' && '.join('(%s)' % cl(x) for x in sp['requires_init']), ' && '.join('(%s)' % cl(x) for x in sp['requires_gen'])))
        H.append('  x_trace = nondet_int();')
    else:
        # locals: any value (hoisted to file scope by the label machine), pointers and references as the entry segment binds them
        for (t, nm, did) in fx.locals:
            if T.is_ostream(t):
                continue
            tt = bx2c.strip_cv(t.replace('bxdecay0::', ''))
            if tt in ('double', 'int', 'bool'):
                H.append('  x_%s = nondet_%s();' % (nm, 'double' if tt == 'double' else 'int'))
        H.append('  x_trace = nondet_int(); x_modebb = S.modebb;')
        H.append('  x_pars = &S; x_ebb1 = &S.bx_base_enrange.ebb1; x_ebb2 = &S.bx_base_enrange.ebb2; x_toallevents = &S.bx_base_enrange.toallevents;')
        H.append('  x_dens = &S.bx_base_denrange.dens; x_denf = &S.bx_base_denrange.denf; x_mode = &S.bx_base_denrange.mode;')
        H.append('  x_Zd = &S.bx_base_helpbb.Zd; x_Ad = &S.bx_base_helpbb.Ad; x_e0 = &S.bx_base_helpbb.e0; x_e1 = &S.bx_base_helpbb.e1;')
        H.append('  x_chi_GTw = &S.bx_base_eta_nme.chi_GTw; x_chi_Fw = &S.bx_base_eta_nme.chi_Fw; x_chip_GT = &S.bx_base_eta_nme.chip_GT; x_chip_F = &S.bx_base_eta_nme.chip_F;')
        H.append('  x_chip_T = &S.bx_base_eta_nme.chip_T; x_chip_P = &S.bx_base_eta_nme.chip_P; x_chip_R = &S.bx_base_eta_nme.chip_R;')
        H.append('  x_Qbb = &S.Qbb; x_Edlevel = &S.Edlevel; x_EK = &S.EK; x_Zdbb = &S.Zdbb; x_Adbb = &S.Adbb; x_istartbb = &S.istartbb; x_spthe1 = S.spthe1; x_spthe2 = S.spthe2; x_spmax = &S.spmax;')
        H.append('  x_pi = 3.14159265358979323846; x_twopi = 2. * x_pi; x_emass = decay0_emass(); x_emass2 = x_emass * x_emass;')
        mine = [x for modes, where, x in sp['ensures'] if where == cname and (modes is None or all(x_ in modes for x_ in mset))]
        for x in sp['invariant'] + sp['at'].get(cname, []) + mine:
            H.append('  __CPROVER_assume(%s);' % cl(x))
    H.append('  int nx = bb_seg(%d);' % k)
    H.append('  __CPROVER_assert(!bx_exc, "C03 %s: no exception (e2 is defined whenever it is used)");' % tag)
    n = 0
    for x in sp['invariant']:
        n += 1
        H.append('  __CPROVER_assert(nx == %d || (%s), "C03 %s: state invariant #%d holds at the next cut point");' % (segments.BX_EXIT, cl(x), tag, n))
    for c_, xs_ in sorted(sp['at'].items()):
        for j, x in enumerate(xs_):
            H.append('  __CPROVER_assert(nx != %d || (%s), "C08 %s: loop invariant #%d of %s holds on arrival");' % (ids[c_], cl(x), tag, j + 1, c_))
    for modes, where, x in sp['ensures']:
        if modes is not None and not all(x_ in modes for x_ in mset):
            assert not any(x_ in modes for x_ in mset), 'mode set straddles an ensures clause'
            continue
        tgt = segments.BX_EXIT if where == 'exit' else ids[where]
        prop = 'C03'
        H.append('  __CPROVER_assert(nx != %d || (%s), "%s %s: ensures at %s: %s");' % (tgt, cl(x), prop, tag, where, re.sub(r'[^\w .<>=+*/&|()-]', '', x)[:90]))
    H.append('  __CPROVER_assert(nx == %d || (nx >= 1 && nx <= %d), "C08 label machine %s: successor is a cut point");' % (segments.BX_EXIT, len(CUTS), tag))
    H.append('  __CPROVER_assert(0, "canary %s: harness end is reachable (must be refuted)");' % tag)
    H.append('}')
    parts.append('\n'.join(H))
    meta = {'function': 'decay0_bb', 'what': 'bbk', 'cut': cname, 'mode': list(mset), 'cuts': CUTS,
            'stubs': sorted(callees), 'inlined': inl}
    return {'c': '\n\n'.join(parts) + '\n', 'entry': 'harness', 'meta': meta}


def build_lemma(spec_path, name):
    """a floating-point lemma of bb.contract: hypotheses ==> conclusion over free doubles, no program text (bit-precise IEEE)"""
    sp = parse_spec(spec_path)
    hyp, con = sp['lemma'][name]
    vs = sorted(set(re.findall(r'\b[a-z][a-z0-9]*\b', hyp + ' ' + con)) - {'bx', 'fmax', 'e'})
    vs = [v for v in vs if not re.match(r'^e\d+$', v) or v in ('e0', 'e1', 'e2')]
    L = ['#include "bx_shim.h"', 'void harness(void)', '{']
    for v in vs:
        L.append('  double %s = nondet_double();' % v)
    for h in hyp.split('&&'):
        L.append('  __CPROVER_assume(%s);' % h.strip())
    for j, c in enumerate(con.split('&&')):
        L.append('  __CPROVER_assert(%s, "C03 lemma %s (IEEE double arithmetic): %s");' % (c.strip(), name, c.strip()))
    L.append('  __CPROVER_assert(0, "canary lemma %s: the hypotheses are satisfiable (must be refuted)");' % name)
    L.append('}')
    return {'c': '\n'.join(L) + '\n', 'entry': 'harness', 'meta': {'function': 'lemma ' + name, 'what': 'bbk-lemma', 'hypotheses': hyp, 'conclusion': con}}

#!/usr/bin/env python3
"""cbmcrun.py -- run one CBMC (or goto-cc / goto-instrument --dfcc / cbmc) query and parse the verdicts.

Every query runs under `timeout` and an address-space limit.  Outcomes per assertion:
  proved / refuted (with CBMC's trace) ; the whole query can also be 'undecided' (timeout, OOM, tool error).
Only 'refuted' can ever become a violation (DESIGN 2.6).
"""
import os, subprocess, json, time, resource, re, hashlib

VERIF = os.path.dirname(os.path.dirname(os.path.abspath(__file__)))
SHIM = os.path.join(VERIF, 'shim')

DEFAULT_CHECKS = ['--bounds-check', '--pointer-check', '--div-by-zero-check', '--signed-overflow-check',
                  '--conversion-check', '--undefined-shift-check', '--pointer-primitive-check']


def _limits(mem_gb):
    def f():
        b = int(mem_gb * (1 << 30))
        resource.setrlimit(resource.RLIMIT_AS, (b, b))
    return f


def sh(cmd, timeout, mem_gb, cwd=None):
    t0 = time.time()
    try:
        r = subprocess.run(cmd, stdout=subprocess.PIPE, stderr=subprocess.PIPE, timeout=timeout,
                           preexec_fn=_limits(mem_gb), cwd=cwd)
        return r.returncode, r.stdout.decode('utf8', 'replace'), r.stderr.decode('utf8', 'replace'), time.time() - t0
    except subprocess.TimeoutExpired as e:
        return 'timeout', (e.stdout or b'').decode('utf8', 'replace'), (e.stderr or b'').decode('utf8', 'replace'), time.time() - t0


def parse_json_ui(out):
    """CBMC --json-ui output -> (props list, messages)"""
    try:
        data = json.loads(out)
    except Exception:
        # truncated output (timeout/OOM)
        return None, out[-2000:]
    props = []
    msgs = []
    for item in data:
        if 'result' in item:
            for p in item['result']:
                tr = p.get('trace')
                props.append({'name': p.get('property'), 'desc': p.get('description'), 'status': p.get('status'),
                              'loc': p.get('sourceLocation', {}), 'trace': tr})
        if 'messageText' in item:
            msgs.append(item['messageText'])
        if 'cProverStatus' in item:
            msgs.append('cProverStatus=' + item['cProverStatus'])
    return props, '\n'.join(msgs)


def trace_values(trace, want_funcs=('bx_draw',)):
    """extract an ordered list of interesting assignments from a CBMC json trace"""
    out = []
    if not trace:
        return out
    for st in trace:
        if st.get('stepType') != 'assignment':
            continue
        if st.get('hidden'):
            pass
        lhs = st.get('lhs', '')
        fn = st.get('sourceLocation', {}).get('function', '')
        val = st.get('value', {})
        out.append({'lhs': lhs, 'fn': fn, 'value': val.get('data'), 'bin': val.get('binary'), 'line': st.get('sourceLocation', {}).get('line')})
    return out


def run_cbmc(cfile, entry, defines=(), checks=DEFAULT_CHECKS, extra=(), timeout=600, mem_gb=8, includes=(),
             solver=('--sat-solver', 'cadical'), trace=True, workdir=None):
    """direct cbmc on a C file; returns result dict"""
    cmd = ['cbmc', cfile, '--function', entry, '--json-ui', '--no-standard-checks'] if False else \
          ['cbmc', cfile, '--function', entry, '--json-ui']
    for d in defines:
        cmd += ['-D', d]
    cmd += ['-I', SHIM]
    for i in includes:
        cmd += ['-I', i]
    cmd += list(checks) + list(solver) + list(extra)
    if trace:
        cmd += ['--trace']
    rc, out, err, wall = sh(cmd, timeout, mem_gb, cwd=workdir)
    res = {'cmd': ' '.join(cmd), 'wall_s': round(wall, 2), 'rc': rc}
    if rc == 'timeout':
        res['status'] = 'undecided'
        res['why'] = 'timeout after %ds' % timeout
        return res
    props, msgs = parse_json_ui(out)
    res['messages'] = msgs[-3000:] if msgs else ''
    if props is None or rc not in (0, 10):
        res['status'] = 'undecided'
        res['why'] = 'tool error rc=%s: %s %s' % (rc, (msgs or '')[-1500:], err[-500:])
        return res
    res['status'] = 'decided'
    res['props'] = props
    if 'ignoring' in (msgs or ''):
        res['warn_ignoring'] = True
    if re.search(r'unwinding (assertion|loop)', msgs or '', re.I) and False:
        res['warn_unwind'] = True
    return res


def run_dfcc(cfile, entry, enforce, replace=(), loop_contracts=False, defines=(), checks=DEFAULT_CHECKS, extra=(),
             timeout=900, mem_gb=12, includes=(), solver=('--sat-solver', 'cadical'), workdir=None, tag='q'):
    """goto-cc -> goto-instrument --dfcc -> cbmc"""
    wd = workdir or os.path.dirname(cfile)
    a = os.path.join(wd, tag + '.a.gb')
    b = os.path.join(wd, tag + '.b.gb')
    cmd1 = ['goto-cc', '--function', entry, '-o', a, cfile, '-I', SHIM]
    for d in defines:
        cmd1 += ['-D', d]
    for i in includes:
        cmd1 += ['-I', i]
    rc, out, err, w1 = sh(cmd1, 120, mem_gb)
    res = {'cmd': ' '.join(cmd1), 'wall_s': round(w1, 2)}
    if rc != 0:
        res['status'] = 'undecided'
        res['why'] = 'goto-cc failed: ' + (out + err)[-1500:]
        return res
    cmd2 = ['goto-instrument', '--dfcc', entry, '--enforce-contract', enforce]
    for r in replace:
        cmd2 += ['--replace-call-with-contract', r]
    if loop_contracts:
        cmd2 += ['--apply-loop-contracts']
    cmd2 += [a, b]
    rc, out, err, w2 = sh(cmd2, 600, mem_gb)
    res['cmd'] += ' ; ' + ' '.join(cmd2)
    if rc != 0:
        res['status'] = 'undecided'
        res['why'] = 'goto-instrument failed: ' + (out + err)[-2500:]
        res['wall_s'] = round(w1 + w2, 2)
        return res
    cmd3 = ['cbmc', b, '--json-ui', '--trace'] + list(checks) + list(solver) + list(extra)
    rc, out, err, w3 = sh(cmd3, timeout, mem_gb)
    res['cmd'] += ' ; ' + ' '.join(cmd3)
    res['wall_s'] = round(w1 + w2 + w3, 2)
    for f in (a, b):
        try:
            os.remove(f)
        except OSError:
            pass
    if rc == 'timeout':
        res['status'] = 'undecided'
        res['why'] = 'timeout after %ds' % timeout
        return res
    props, msgs = parse_json_ui(out)
    res['messages'] = msgs[-3000:] if msgs else ''
    if props is None or rc not in (0, 10):
        res['status'] = 'undecided'
        res['why'] = 'tool error rc=%s: %s %s' % (rc, (msgs or '')[-1500:], err[-500:])
        return res
    res['status'] = 'decided'
    res['props'] = props
    return res

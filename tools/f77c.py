#!/usr/bin/env python3
"""f77c -- the Decay0 reference (fixed-form FORTRAN 77) rendered into the same statement/expression IR as bx2c.

Only the statement kinds that occur in decay0_2020-04-20.for are accepted; anything else raises Unsupported
(-> exit 2 for that unit, never a verdict).  `real` is rendered as double (DESIGN 2.3).
Conventions shared with bx2c:  rnd1(d) -> bx_draw(prng_);  label 2506 -> label_2506;  x**n (integer n) -> bx_powi(x,n).
"""
import re, os, sys
sys.path.insert(0, os.path.dirname(os.path.abspath(__file__)))
import bx2c
from bx2c import S, E, Unsupported

INTRINSIC = {
    'alog': ('bx_log', 'd'), 'log': ('bx_log', 'd'), 'dlog': ('bx_log', 'd'), 'exp': ('bx_exp', 'd'), 'dexp': ('bx_exp', 'd'),
    'sqrt': ('bx_sqrt', 'd'), 'dsqrt': ('bx_sqrt', 'd'), 'sin': ('bx_sin', 'd'), 'cos': ('bx_cos', 'd'), 'tan': ('bx_tan', 'd'),
    'acos': ('bx_acos', 'd'), 'asin': ('bx_asin', 'd'), 'atan': ('bx_atan', 'd'), 'atan2': ('bx_atan2', 'd'),
    'alog10': ('bx_log10', 'd'), 'dabs': ('bx_fabs', 'd'), 'dcos': ('bx_cos', 'd'), 'dsin': ('bx_sin', 'd'),
    'amax1': ('bx_fmax', 'd'), 'amin1': ('bx_fmin', 'd'), 'dmax1': ('bx_fmax', 'd'), 'dmin1': ('bx_fmin', 'd'),
    'max0': ('bx_imax', 'i'), 'min0': ('bx_imin', 'i'), 'iabs': ('bx_iabs', 'i'),
    'float': ('(double)', 'd'), 'real': ('(double)', 'd'), 'dble': ('(double)', 'd'), 'sngl': ('(double)', 'd'),
    'lngammaabs': ('bx_lngamma_abs', 'd'),
    'int': ('(int)', 'i'), 'ifix': ('(int)', 'i'), 'nint': ('bx_nint', 'i'), 'mod': ('bx_imod', 'i'),
}


class Unit:
    def __init__(self):
        self.kind = None      # subroutine | function
        self.name = None
        self.args = []
        self.stmts = []       # (label or None, text, lineno)
        self.types = {}       # name -> 'd' | 'i' | 'l' | 'c'
        self.arrays = {}      # name -> dims (list of ints)
        self.commons = {}     # block -> [names]
        self.externals = set()
        self.rettype = None
        self.line = None


def strip_comment(s):
    out = []
    q = False
    for ch in s:
        if ch == "'":
            q = not q
        if ch == '!' and not q:
            break
        out.append(ch)
    return ''.join(out).rstrip()


def logical_lines(path):
    """-> list of (label, statement text, lineno)"""
    out = []
    cur = None
    for n, raw in enumerate(open(path, errors='replace'), 1):
        line = raw.rstrip('\n').rstrip('\r')
        if not line.strip():
            continue
        if line[0] in 'cC*!dD':
            continue
        if line.lstrip().startswith('!'):
            continue
        lab = ''
        cont = False
        head = line[:6]
        if '\t' in head:
            i = line.index('\t')
            lab = line[:i].strip()
            rest = line[i + 1:]
            if rest[:1].isdigit() and rest[:1] != '0' and not lab:
                cont = True
                rest = rest[1:]
            stmt = rest
        else:
            lab = line[:5].strip()
            c6 = line[5:6]
            if c6 not in ('', ' ', '0'):
                cont = True
            stmt = line[6:]
        stmt = strip_comment(stmt)
        if cont:
            if cur is None:
                raise Unsupported('continuation without statement at line %d' % n)
            cur[1] += ' ' + stmt.strip()
            continue
        if not stmt.strip():
            continue
        if cur is not None:
            out.append(tuple(cur))
        cur = [lab or None, stmt.strip(), n]
    if cur is not None:
        out.append(tuple(cur))
    return out


def lower_outside_strings(s):
    out = []
    q = False
    for ch in s:
        if ch == "'":
            q = not q
        out.append(ch if q else ch.lower())
    return ''.join(out)


def split_units(lines):
    units = []
    cur = None
    for lab, txt, n in lines:
        t = lower_outside_strings(txt)
        m = re.match(r'^(?:(real|double precision|integer|logical|real\*8|real\*4|complex)\s+)?(subroutine|function|program)\s+(\w+)\s*(?:\((.*)\))?\s*$', t)
        if m:
            cur = Unit()
            cur.kind = m.group(2)
            cur.name = m.group(3)
            cur.args = [a.strip() for a in (m.group(4) or '').split(',') if a.strip()]
            cur.rettype = m.group(1)
            cur.line = n
            units.append(cur)
            continue
        if t == 'end':
            cur = None
            continue
        if cur is None:
            if t.startswith('block data'):
                cur = Unit()
                cur.kind = 'blockdata'
                cur.name = 'blockdata'
                cur.line = n
                units.append(cur)
                continue
            raise Unsupported('statement outside a program unit at line %d: %s' % (n, t[:60]))
        cur.stmts.append((lab, t, n))
    return units


# ----------------------------------------------------------------------------------------------
# expressions
# ----------------------------------------------------------------------------------------------

TOK = re.compile(r"\s*(?:(\d+\.(?![a-z]+\.)\d*(?:[ed][+-]?\d+)?|\.\d+(?:[ed][+-]?\d+)?|\d+[ed][+-]?\d+)|(\d+)|(\.(?:le|lt|ge|gt|eq|ne|and|or|not|true|false)\.)|([a-z_]\w*)|('(?:[^']|'')*')|(\*\*|[-+*/(),=:]))", re.I)


def tokenize(s):
    toks = []
    i = 0
    # blanks are insignificant in fixed-form Fortran (the reference writes "0. and." for "0.and."): drop them outside strings
    out = []
    q = False
    for ch in s:
        if ch == "'":
            q = not q
        if ch in ' \t' and not q:
            continue
        out.append(ch)
    s = ''.join(out)
    while i < len(s):
        m = TOK.match(s, i)
        if not m or m.end() == i:
            raise Unsupported('cannot tokenize: ' + s[i:i + 30])
        if m.group(1):
            toks.append(('real', m.group(1)))
        elif m.group(2):
            toks.append(('int', m.group(2)))
        elif m.group(3):
            toks.append(('op', m.group(3).lower()))
        elif m.group(4):
            toks.append(('id', m.group(4).lower()))
        elif m.group(5):
            toks.append(('str', m.group(5)))
        else:
            toks.append(('op', m.group(6)))
        i = m.end()
    return toks


class Ctx:
    """per-unit translation context"""

    def __init__(self, unit, prog):
        self.u = unit
        self.prog = prog
        self.out_args = prog.assigned_dummies.get(unit.name, set())
        self.calls = set()
        self.draws = 0
        self.locals = {}   # name -> type char
        self.tmpn = 0
        self.pre = []
        self.commons_used = {}
        self.state_commons = {}
        self.proc_dummies = set()

    def vtype(self, name):
        if name in self.u.types:
            return self.u.types[name]
        return 'i' if name[0] in 'ijklmn' else 'd'

    def var(self, name):
        t = self.vtype(name)
        if self.prog.common_of.get(self.u.name, {}).get(name) == 'genevent':
            # scalar of the reference event record (npfull, tevst): state of the abstract event
            self.calls.add('ref_' + name)
            return E('var', name='ref_ev_' + name, extra='global'), t
        blk = self.prog.common_of.get(self.u.name, {}).get(name)
        if blk is not None and name not in self.prog.common_init:
            # a common block that carries STATE between units (parbeta, ...): storage is positional, names are per unit
            pos = self.u.commons[blk].index(name)
            g = 'cm_%s_%d' % (blk, pos)
            self.state_commons[g] = (t, self.prog.common_arrays[self.u.name].get(name), blk, pos)
            return E('var', name=g, extra='global'), t
        if name in self.prog.common_of.get(self.u.name, {}):
            self.commons_used[name] = (t, self.prog.common_arrays[self.u.name].get(name))
        elif name not in self.u.args:
            self.locals.setdefault(name, t)
        isd = name in self.u.args and name in self.out_args and name not in self.u.arrays   # an array dummy is a pointer already
        return E('var', name=name, extra='local', isd=isd), t


def push_neg(e, isd):
    """-(a*b/c) == (-a)*b/c exactly in IEEE arithmetic (sign-symmetric rounding): move a leading unary minus into the
    leftmost literal factor, the form the C++ port is written in (-2. * x / y)"""
    if e.k == 'bin' and e.op in ('*', '/'):
        inner = push_neg(e.a, isd)
        if inner is not None:
            return E('bin', op=e.op, a=inner, b=e.b, isd=e.isd)
        return None
    if e.k == 'flit':
        return E('flit', name=('-' + e.name) if not e.name.startswith('-') else e.name[1:])
    if e.k == 'ilit' and re.match(r'^\d+$', e.name):
        return E('ilit', name='-' + e.name)
    return None


class Parser:
    def __init__(self, toks, ctx):
        self.t = toks
        self.i = 0
        self.c = ctx

    def peek(self):
        return self.t[self.i] if self.i < len(self.t) else (None, None)

    def next(self):
        x = self.peek()
        self.i += 1
        return x

    def expect(self, v):
        k, x = self.next()
        if x != v:
            raise Unsupported('expected %s got %s' % (v, x))

    # precedence: .or. < .and. < .not. < relational < +- < */ < unary < **
    def expr(self):
        return self.p_or()

    def p_or(self):
        a, ta = self.p_and()
        while self.peek() == ('op', '.or.'):
            self.next()
            b, tb = self.p_and()
            a, ta = E('bin', op='||', a=a, b=b), 'l'
        return a, ta

    def p_and(self):
        a, ta = self.p_not()
        while self.peek() == ('op', '.and.'):
            self.next()
            b, tb = self.p_not()
            a, ta = E('bin', op='&&', a=a, b=b), 'l'
        return a, ta

    def p_not(self):
        if self.peek() == ('op', '.not.'):
            self.next()
            a, ta = self.p_not()
            return E('un', op='!', a=E('paren', a=a), extra='pre'), 'l'
        return self.p_rel()

    REL = {'.le.': '<=', '.lt.': '<', '.ge.': '>=', '.gt.': '>', '.eq.': '==', '.ne.': '!='}

    def p_rel(self):
        a, ta = self.p_add()
        k, x = self.peek()
        if k == 'op' and x in self.REL:
            self.next()
            b, tb = self.p_add()
            a, b = self.promote(a, ta, b, tb)
            return E('bin', op=self.REL[x], a=a, b=b), 'l'
        return a, ta

    def promote(self, a, ta, b, tb):
        if ta == 'd' and tb == 'i':
            b = E('cast', name='double', a=b)
        if ta == 'i' and tb == 'd':
            a = E('cast', name='double', a=a)
        return a, b

    def p_add(self):
        k, x = self.peek()
        if k == 'op' and x in ('-', '+'):
            self.next()
            a, ta = self.p_mul()
            if x == '-':
                pn = push_neg(a, ta == 'd')
                a = pn if pn is not None else E('un', op='-', a=a, extra='pre', isd=(ta == 'd'))
        else:
            a, ta = self.p_mul()
        while True:
            k, x = self.peek()
            if k == 'op' and x in ('+', '-'):
                self.next()
                b, tb = self.p_mul()
                a, b = self.promote(a, ta, b, tb)
                t = 'd' if 'd' in (ta, tb) else 'i'
                a, ta = E('bin', op=x, a=a, b=b, isd=(t == 'd')), t
            else:
                return a, ta

    def p_mul(self):
        a, ta = self.p_unary()
        while True:
            k, x = self.peek()
            if k == 'op' and x in ('*', '/'):
                self.next()
                b, tb = self.p_unary()
                a, b = self.promote(a, ta, b, tb)
                t = 'd' if 'd' in (ta, tb) else 'i'
                a, ta = E('bin', op=x, a=a, b=b, isd=(t == 'd')), t
            else:
                return a, ta

    def p_unary(self):
        k, x = self.peek()
        if k == 'op' and x in ('-', '+'):
            self.next()
            a, ta = self.p_unary()
            if x == '-':
                return E('un', op='-', a=a, extra='pre', isd=(ta == 'd')), ta
            return a, ta
        return self.p_pow()

    def p_pow(self):
        a, ta = self.p_atom()
        if self.peek() == ('op', '**'):
            self.next()
            b, tb = self.p_unary()  # right associative
            if tb == 'i' and b.k == 'ilit':
                n = int(b.name)
                if ta == 'i':
                    raise Unsupported('integer power')
                return E('call', a='bx_powi', args=[a, b], extra={'powint': n}), 'd'
            if ta == 'i':
                a = E('cast', name='double', a=a)
            if tb == 'i':
                b = E('cast', name='double', a=b)
            return E('call', a='bx_pow', args=[a, b]), 'd'
        return a, ta

    def args(self):
        out = []
        self.expect('(')
        if self.peek() == ('op', ')'):
            self.next()
            return out
        while True:
            out.append(self.expr())
            k, x = self.next()
            if x == ')':
                return out
            if x != ',':
                raise Unsupported('argument list')

    def p_atom(self):
        k, x = self.next()
        if k == 'real':
            t = x.lower().replace('d', 'e')
            if t.endswith('.'):
                t += '0'
            if t.startswith('.'):
                t = '0' + t
            t = re.sub(r'\.e', '.0e', t)
            return E('flit', name=t), 'd'
        if k == 'int':
            return E('ilit', name=str(int(x))), 'i'
        if k == 'op' and x == '(':
            a, ta = self.expr()
            self.expect(')')
            return E('paren', a=a), ta
        if k == 'op' and x in ('.true.', '.false.'):
            return E('ilit', name='1' if x == '.true.' else '0'), 'l'
        if k == 'str':
            return E('slit', name='"' + x[1:-1].replace('"', '\\"') + '"'), 'c'
        if k == 'id':
            if self.peek() == ('op', '('):
                if x in self.c.u.arrays or x in self.c.prog.common_arrays.get(self.c.u.name, {}):
                    idx = self.args()
                    return self.c.prog.array_ref(self.c, x, idx)
                if x in ('rnd1', 'rndm'):  # rndm(d): CERNLIB's uniform generator, used once (Ac228) in place of rnd1(d)
                    self.args()
                    self.c.draws += 1
                    return E('call', a='bx_draw', args=[E('var', name='prng_', extra='global')]), 'd'
                if x in ('abs',):
                    a = self.args()
                    (e, t), = a
                    return E('call', a='bx_fabs' if t == 'd' else 'bx_iabs', args=[e]), t
                if x in ('max', 'min'):
                    a = self.args()
                    t = 'd' if any(tt == 'd' for e, tt in a) else 'i'
                    es = [E('cast', name='double', a=e) if (t == 'd' and tt == 'i') else e for e, tt in a]
                    r = es[0]
                    for e in es[1:]:
                        r = E('call', a=('bx_f' if t == 'd' else 'bx_i') + x, args=[r, e])
                    return r, t
                if x in ('amax1', 'amin1'):
                    a = self.args()
                    r = a[0][0]
                    for e, tt in a[1:]:
                        r = E('call', a=INTRINSIC[x][0], args=[r, e])
                    return r, 'd'
                if x in INTRINSIC:
                    fn, rt = INTRINSIC[x]
                    a = self.args()
                    if fn.startswith('('):
                        return E('cast', name=fn[1:-1], a=a[0][0]), rt
                    es = []
                    for e, tt in a:
                        if rt == 'd' and tt == 'i' and fn not in ('bx_nint',):
                            e = E('cast', name='double', a=e)
                        es.append(e)
                    return E('call', a=fn, args=es), rt
                # user function
                a = self.args()
                return self.c.prog.function_call(self.c, x, a)
            if x in self.c.u.externals and x not in self.c.u.args:
                # a procedure name passed as an actual argument
                self.c.calls.add(x)
                return E('fn', name='ref_' + x, extra='ref'), 'f'
            e, t = self.c.var(x)
            return e, t
        raise Unsupported('expression atom %s %s' % (k, x))


# ----------------------------------------------------------------------------------------------
# program
# ----------------------------------------------------------------------------------------------

class Program:
    def __init__(self, path):
        self.path = path
        self.lines = logical_lines(path)
        self.units = {u.name: u for u in split_units(self.lines)}
        self.common_of = {}      # unit -> {var: block}
        self.common_arrays = {}  # unit -> {var: dims}
        self.assigned_dummies = {}
        self.callmap = {}
        fu = self.units.get('fermi')
        if fu is not None:
            # complex arithmetic of the reference is not rendered.  The only use is  alog(cabs(cgamma(cmplx(g,y)))) =
            # Re ln Gamma(g+iy), which the port obtains from gsl_sf_lngamma_complex_e(g,y).lnr: both become the same
            # uninterpreted bx_lngamma_abs(g,y) (the special function itself is assumed, DESIGN 3 C01).
            new = []
            for lab, t, n in fu.stmts:
                if re.match(r'^complex\b', t) or re.match(r'^carg\s*=\s*cmplx\(g,y\)$', t.replace(' ', '')):
                    continue
                t2 = t.replace('alog(cabs(cgamma(carg)))', 'lngammaabs(g,y)')
                if 'cgamma' in t2 or 'cmplx' in t2:
                    raise Unsupported('fermi: unexpected complex arithmetic: ' + t2[:60])
                new.append((lab, t2, n))
            fu.stmts = new
        for u in self.units.values():
            self.declarations(u)
        self.dummy_fixpoint()
        self.common_init = {}
        bd = self.units.get('blockdata')
        if bd is not None:
            for lab, t, n in bd.body:
                m = re.match(r'^data\s+(\w+)\s*/(.*)/\s*$', t)
                if m:
                    vals = []
                    for v in bx2c.split_top(m.group(2)):
                        v = v.strip()
                        mm = re.match(r'^(\d+)\*(.*)$', v)
                        rep, v = (int(mm.group(1)), mm.group(2)) if mm else (1, v)
                        vals += [v] * rep
                    self.common_init[m.group(1)] = vals

    # ---- declarations ---------------------------------------------------------------------
    def declarations(self, u):
        self.common_of[u.name] = {}
        self.common_arrays[u.name] = {}
        body = []
        for lab, t, n in u.stmts:
            m = re.match(r'^common\s*/\s*(\w+)\s*/\s*(.*)$', t)
            if m:
                for nm, dims in self.decl_list(m.group(2)):
                    self.common_of[u.name][nm] = m.group(1)
                    u.commons.setdefault(m.group(1), []).append(nm)
                    if dims:
                        self.common_arrays[u.name][nm] = dims
                continue
            m = re.match(r'^(real\*8|real\*4|real|double precision|integer\*4|integer|logical|character\*\d+|character\*\(\*\)|character|complex)\s+(.*)$', t)
            if m and not re.match(r'^(real|integer)\s*=', t):
                ty = {'real*8': 'd', 'real*4': 'd', 'real': 'd', 'double precision': 'd', 'integer*4': 'i', 'integer': 'i', 'logical': 'l', 'complex': 'z'}.get(m.group(1), 'c')
                for nm, dims in self.decl_list(m.group(2)):
                    u.types[nm] = ty
                    if dims:
                        u.arrays[nm] = dims
                continue
            m = re.match(r'^dimension\s+(.*)$', t)
            if m:
                for nm, dims in self.decl_list(m.group(1)):
                    u.arrays[nm] = dims
                continue
            m = re.match(r'^external\s+(.*)$', t)
            if m:
                u.externals |= {x.strip() for x in m.group(1).split(',')}
                continue
            if re.match(r'^(save|implicit|parameter|data)\b', t):
                body.append((lab, t, n))  # handled (or refused) by the statement translator
                continue
            body.append((lab, t, n))
        u.body = body

    def decl_list(self, s):
        out = []
        for item in bx2c.split_top(s):
            m = re.match(r'^(\w+)\s*(?:\((.*)\))?\s*(?:\*\d+)?$', item.strip())
            if not m:
                raise Unsupported('declaration item ' + item)
            dims = None
            if m.group(2) is not None:
                dims = [x.strip() for x in m.group(2).split(',')]
            out.append((m.group(1), dims))
        return out

    # ---- which dummies are assigned (Fortran passes by reference) ----------------------------
    def dummy_fixpoint(self):
        direct = {}
        passes = {}
        for u in self.units.values():
            d = set()
            ps = []
            for lab, t, n in u.body:
                core = re.sub(r'^if\s*\(.*?\)\s*(?=\w+\s*(\(.*\))?\s*=)', '', t) if t.startswith('if') else t
                m = re.match(r'^(\w+)\s*(\(.*?\))?\s*=[^=]', core)
                if m and m.group(1) in u.args:
                    d.add(m.group(1))
                for cm in re.finditer(r'\bcall\s+(\w+)\s*\((.*)\)\s*$', t):
                    args = bx2c.split_top(cm.group(2))
                    for k, a in enumerate(args):
                        a = a.strip()
                        if a in u.args:
                            ps.append((a, cm.group(1), k))
            direct[u.name] = d
            passes[u.name] = ps
        ch = True
        while ch:
            ch = False
            for un, ps in passes.items():
                for (a, callee, k) in ps:
                    cu = self.units.get(callee)
                    if cu and k < len(cu.args) and cu.args[k] in direct[callee] and a not in direct[un]:
                        direct[un].add(a)
                        ch = True
        # fermi(Z,E) clamps its dummy E to 50 eV in place.  Every caller passes E >= 50 eV (beta: E = 50e-6 + ...; tgold
        # searches [50e-6, Q]), so the write-back is unobservable; E is rendered by value (stated assumption).
        if 'fermi' in direct:
            direct['fermi'].discard('e')
        self.assigned_dummies = direct

    # ---- hooks used by the expression parser --------------------------------------------------
    def array_ref(self, ctx, name, idx):
        es = [e for e, t in idx]
        u = ctx.u
        t = u.types.get(name) or ('i' if name[0] in 'ijklmn' else 'd')
        blk = self.common_of[u.name].get(name)
        if blk == 'genevent':
            # the reference event record: accesses are abstract event operations
            ctx.calls.add('ref_' + name)
            return E('call', a='ref_' + name, args=es), t
        if len(es) == 1:
            if blk is not None and name not in self.common_init:
                pos = u.commons[blk].index(name)
                g = 'cm_%s_%d' % (blk, pos)
                ctx.state_commons[g] = (t, self.common_arrays[u.name].get(name), blk, pos)
                return E('index', a=E('var', name=g, extra='global'), b=E('bin', op='-', a=es[0], b=E('ilit', name='1'))), t
            if blk is not None:
                ctx.commons_used[name] = (t, self.common_arrays[u.name].get(name))
            return E('index', a=E('var', name=name, extra='local'), b=E('bin', op='-', a=es[0], b=E('ilit', name='1'))), t
        raise Unsupported('multi-dimensional array ' + name)

    def function_call(self, ctx, name, args):
        if name in ctx.u.args and name not in ctx.u.arrays:
            # call through a dummy procedure
            ctx.proc_dummies.add(name)
            return E('call', a=E('var', name=name, extra='local'), args=[e for e, t in args], extra={'indirect': True}), 'd'
        ctx.calls.add(name)
        cu = self.units.get(name)
        rt = 'd'
        if cu is not None:
            rt = {'integer': 'i', None: ('i' if name[0] in 'ijklmn' else 'd')}.get(cu.rettype, 'd')
        es = self.pass_args(ctx, name, args)
        return E('call', a=E('fn', name='ref_' + name, extra='ref'), args=es), rt

    def pass_args(self, ctx, callee, args):
        cu = self.units.get(callee)
        outs = self.assigned_dummies.get(callee, set())
        es = []
        for k, (e, t) in enumerate(args):
            byref = cu is not None and k < len(cu.args) and cu.args[k] in outs
            if byref:
                if e.k != 'var':
                    raise Unsupported('expression passed to an assigned dummy of ' + callee)
                es.append(bx2c.mk_addr(e))
            else:
                if cu is not None and k < len(cu.args):
                    want = cu.types.get(cu.args[k]) or ('i' if cu.args[k][0] in 'ijklmn' else 'd')
                    if want == 'd' and t == 'i':
                        e = E('cast', name='double', a=e)
                es.append(e)
        return es

    # ---- statements ---------------------------------------------------------------------------
    def translate(self, name):
        u = self.units[name]
        ctx = Ctx(u, self)
        f = bx2c.Func()
        f.name = 'ref_' + name
        f.cxxname = name
        f.file = os.path.basename(self.path)
        items = self.block(ctx, list(u.body), 0, len(u.body))
        if u.kind == 'function':
            items.append(S('return', e=E('var', name=name, extra='local')))
        f.body = S('block', items=items, synthetic=False)
        f.ret = 'void'
        if u.kind == 'function':
            rt = {'integer': 'int'}.get(u.rettype, 'int' if (u.rettype is None and name[0] in 'ijklmn') else 'double')
            f.ret = rt
            ctx.locals.setdefault(name, 'i' if rt == 'int' else 'd')
        outs = self.assigned_dummies.get(name, set())
        for a in u.args:
            t = u.types.get(a) or ('i' if a[0] in 'ijklmn' else 'd')
            if a in u.externals or a in ctx.proc_dummies:
                f.params.append((None, a, 'double (*)(double)', False))
                continue
            ct = {'d': 'double', 'i': 'int', 'l': 'bool', 'c': 'std::string'}[t]
            if a in u.arrays:
                f.params.append((None, a, ct + ' *', False))
            elif a in outs:
                f.params.append((None, a, ct + ' &', True))
            else:
                f.params.append((None, a, ct, False))
        for nm, t in ctx.locals.items():
            if nm in u.args:
                continue
            ct = {'d': 'double', 'i': 'int', 'l': 'bool', 'c': 'std::string', 'z': 'double'}[t]
            if nm in u.arrays:
                dims = u.arrays[nm]
                if len(dims) != 1:
                    raise Unsupported('array dims ' + nm)
                f.locals.append(('%s[%s]' % (ct, dims[0]), nm, None))
            else:
                f.locals.append((ct, nm, None))
        f.commons = dict(ctx.commons_used)
        f.state_commons = dict(ctx.state_commons)
        for nm, (t, dims) in ctx.commons_used.items():
            ct = {'d': 'double', 'i': 'int', 'l': 'bool'}.get(t)
            if ct is None:
                raise Unsupported('common variable %s of type %s' % (nm, t))
            if dims:
                if len(dims) != 1:
                    raise Unsupported('common array dims ' + nm)
                f.locals.append(('%s[%s]' % (ct, dims[0]), nm, None))
            else:
                f.locals.append((ct, nm, None))
        f.calls = set(ctx.calls)
        f.draws = ctx.draws
        f.labels = [l for l, t, n in u.body if l]
        f.ref_unit = u
        return f

    def block(self, ctx, body, i, j):
        """translate statements body[i:j] -> list of S"""
        out = []
        k = i
        while k < j:
            lab, t, n = body[k]
            st, k = self.statement(ctx, body, k, j)
            if lab:
                st = S('label', name='label_' + str(int(lab)), stmt=st if st is not None else S('empty', why=''))
            if st is not None:
                out.append(st)
        return out

    def find_block_end(self, body, k, j):
        """k at 'if (...) then'; returns indices of (else-if/else markers..., endif)"""
        depth = 0
        marks = []
        m = k
        while m < j:
            t = body[m][1]
            if re.match(r'^if\s*\(.*\)\s*then$', t):
                depth += 1
            elif re.match(r'^end\s*if$', t):
                depth -= 1
                if depth == 0:
                    return marks, m
            elif depth == 1 and (re.match(r'^else\s*if\s*\(.*\)\s*then$', t) or t == 'else'):
                marks.append(m)
            m += 1
        raise Unsupported('unterminated block if at line %d' % body[k][2])

    def find_enddo(self, body, k, j, label=None):
        depth = 0
        m = k
        while m < j:
            lab, t, n = body[m]
            if re.match(r'^do\s+(\d+\s+)?\w+\s*=', t):
                depth += 1
            if label is None and re.match(r'^end\s*do$', t):
                depth -= 1
                if depth == 0:
                    return m
            if label is not None and lab and int(lab) == label and m > k:
                return m
            m += 1
        raise Unsupported('unterminated do at line %d' % body[k][2])

    def cond(self, ctx, s):
        toks = tokenize(s)
        p = Parser(toks, ctx)
        e, t = p.expr()
        if p.i != len(toks):
            raise Unsupported('trailing tokens in condition ' + s)
        return e

    def simple(self, ctx, t, n):
        """a statement that can follow a logical if"""
        m = re.match(r'^go\s*to\s+(\d+)$', t)
        if m:
            return S('goto', label='label_' + str(int(m.group(1))))
        if t == 'return':
            if ctx.u.kind == 'function':
                return S('return', e=E('var', name=ctx.u.name, extra='local'))
            return S('return', e=None)
        if t == 'continue':
            return S('empty', why='')
        if t in ('stop',) or t.startswith('stop '):
            return S('throw')
        m = re.match(r'^call\s+(\w+)\s*(?:\((.*)\))?$', t)
        if m:
            name = m.group(1)
            toks = tokenize('(' + (m.group(2) or '') + ')')
            p = Parser(toks, ctx)
            args = p.args()
            ctx.calls.add(name)
            es = self.pass_args(ctx, name, args)
            return S('expr', e=E('call', a=E('fn', name='ref_' + name, extra='ref'), args=es))
        if re.match(r'^(print|write|read|open|close|format|rewind)\b', t):
            return S('empty', why='I/O dropped')
        m = re.match(r'^(\w+)\s*(\(.*?\))?\s*=(?!=)(.*)$', t)
        if m:
            return self.assign(ctx, m.group(1), m.group(2), m.group(3))
        raise Unsupported('statement at line %d: %s' % (n, t[:80]))

    def assign(self, ctx, name, idx, rhs):
        toks = tokenize(rhs)
        p = Parser(toks, ctx)
        e, t = p.expr()
        if p.i != len(toks):
            raise Unsupported('trailing tokens in ' + rhs)
        u = ctx.u
        if idx:
            p2 = Parser(tokenize(idx), ctx)
            ix = p2.args()
            blk = self.common_of[u.name].get(name)
            if blk == 'genevent':
                ctx.calls.add('ref_set_' + name)
                return S('expr', e=E('call', a='ref_set_' + name, args=[x for x, tt in ix] + [e]))
            if name not in u.arrays and name not in self.common_arrays[u.name]:
                raise Unsupported('assignment to non-array ' + name)
            if len(ix) != 1:
                raise Unsupported('multi-dim assignment ' + name)
            lt = u.types.get(name) or ('i' if name[0] in 'ijklmn' else 'd')
            if blk is not None and name not in self.common_init:
                pos = u.commons[blk].index(name)
                g = 'cm_%s_%d' % (blk, pos)
                ctx.state_commons[g] = (lt, self.common_arrays[u.name].get(name), blk, pos)
                lhs = E('index', a=E('var', name=g, extra='global'), b=E('bin', op='-', a=ix[0][0], b=E('ilit', name='1')))
            else:
                lhs = E('index', a=E('var', name=name, extra='local'), b=E('bin', op='-', a=ix[0][0], b=E('ilit', name='1')))
                ctx.locals.setdefault(name, lt)
        else:
            lhs, lt = ctx.var(name)
            if u.kind == 'function' and name == u.name:
                lhs = E('var', name=name, extra='local')
        if lt == 'd' and t == 'i':
            e = E('cast', name='double', a=e)
        if lt == 'i' and t == 'd':
            e = E('cast', name='int', a=e)
        return S('expr', e=E('assign', op='=', a=lhs, b=e, isd=(lt == 'd')))

    def statement(self, ctx, body, k, j):
        lab, t, n = body[k]
        m = re.match(r'^if\s*\((.*)\)\s*then$', t)
        if m:
            marks, end = self.find_block_end(body, k, j)
            bounds = [k] + marks + [end]
            conds = [m.group(1)]
            for mk in marks:
                mm = re.match(r'^else\s*if\s*\((.*)\)\s*then$', body[mk][1])
                conds.append(mm.group(1) if mm else None)
            # build nested if / else-if chain from the back
            node = None
            for bi in range(len(bounds) - 2, -1, -1):
                blk = S('block', items=self.block(ctx, body, bounds[bi] + 1, bounds[bi + 1]), synthetic=False)
                if body[bounds[bi]][0] and bi > 0:
                    raise Unsupported('label on else/elseif')
                c = conds[bi]
                if c is None:
                    node = blk
                else:
                    node = S('if', cond=self.cond(ctx, c), then=blk, els=node)
            if body[end][0]:
                # a labelled endif: keep the label as a jump target after the block
                return S('multi', items=[node, S('label', name='label_' + str(int(body[end][0])), stmt=S('empty', why=''))]), end + 1
            return node, end + 1
        m = re.match(r'^if\s*\(', t)
        if m:
            # logical if: find the matching parenthesis
            depth = 0
            for p, ch in enumerate(t):
                if ch == '(':
                    depth += 1
                elif ch == ')':
                    depth -= 1
                    if depth == 0:
                        break
            c = t[t.index('(') + 1:p]
            rest = t[p + 1:].strip()
            if re.match(r'^\d+\s*,\s*\d+\s*,\s*\d+$', rest):
                raise Unsupported('arithmetic if')
            return S('if', cond=self.cond(ctx, c), then=S('block', items=[self.simple(ctx, rest, n)], synthetic=True), els=None), k + 1
        m = re.match(r'^do\s+(?:(\d+)\s+)?(\w+)\s*=\s*(.*)$', t)
        if m:
            lbl = int(m.group(1)) if m.group(1) else None
            end = self.find_enddo(body, k, j, lbl)
            var, vt = ctx.var(m.group(2))
            parts = bx2c.split_top(m.group(3))
            if len(parts) not in (2, 3):
                raise Unsupported('do bounds')
            lo = self.cond(ctx, parts[0])
            hi = self.cond(ctx, parts[1])
            if len(parts) == 3:
                raise Unsupported('do with step')
            inner_end = end if lbl is None else end + 1
            blk = S('block', items=self.block(ctx, body, k + 1, inner_end), synthetic=False)
            pre_ = None
            if hi.k not in ('ilit', 'var'):
                # Fortran evaluates the bounds of a DO loop once, before the first iteration
                ctx.tmpn += 1
                hn = 'bx_dohi%d' % ctx.tmpn
                ctx.locals.setdefault(hn, 'i')
                hv = E('var', name=hn, extra='local')
                pre_ = S('expr', e=E('assign', op='=', a=hv, b=hi))
                hi = hv
            loop = S('for', init=S('expr', e=E('assign', op='=', a=var, b=lo)), cond=E('bin', op='<=', a=var, b=hi),
                     inc=E('assign', op='=', a=var, b=E('bin', op='+', a=var, b=E('ilit', name='1'))), body=blk)
            if pre_ is not None:
                return S('multi', items=[pre_, loop]), end + 1
            return loop, end + 1
        if re.match(r'^go\s*to\s*\(', t):
            mm = re.match(r'^go\s*to\s*\(([\d,\s]+)\)\s*,?\s*(\w+)$', t)
            if not mm:
                raise Unsupported('computed goto shape')
            labs = [int(x) for x in mm.group(1).split(',')]
            v, vt = ctx.var(mm.group(2))
            items = []
            for idx, l in enumerate(labs, 1):
                items.append(S('if', cond=E('bin', op='==', a=v, b=E('ilit', name=str(idx))), then=S('block', items=[S('goto', label='label_%d' % l)], synthetic=True), els=None))
            return S('multi', items=items), k + 1
        if re.match(r'^(save|implicit)\b', t):
            return None, k + 1
        if re.match(r'^(data|parameter)\b', t):
            return self.data_stmt(ctx, t, n), k + 1
        return self.simple(ctx, t, n), k + 1

    def data_stmt(self, ctx, t, n):
        m = re.match(r'^data\s+(\w+)\s*/(.*)/\s*$', t)
        if m:
            name = m.group(1)
            vals = [v.strip() for v in bx2c.split_top(m.group(2))]
            u = ctx.u
            items = []
            if name in u.arrays:
                k = 0
                for v in vals:
                    rep = 1
                    mm = re.match(r'^(\d+)\*(.*)$', v)
                    if mm:
                        rep, v = int(mm.group(1)), mm.group(2)
                    for _ in range(rep):
                        items.append(self.assign(ctx, name, '(%d)' % (k + 1), v))
                        k += 1
                return S('multi', items=items)
            return self.assign(ctx, name, None, vals[0])
        m = re.match(r'^parameter\s*\((.*)\)$', t)
        if m:
            items = []
            for it in bx2c.split_top(m.group(1)):
                nm, v = it.split('=')
                items.append(self.assign(ctx, nm.strip(), None, v))
            return S('multi', items=items)
        raise Unsupported('data statement at line %d: %s' % (n, t[:60]))


if __name__ == '__main__':
    prog = Program(sys.argv[1])
    ok = bad = 0
    import collections
    why = collections.Counter()
    for name in sorted(prog.units):
        try:
            f = prog.translate(name)
            ok += 1
        except Unsupported as e:
            bad += 1
            why[str(e)[:70]] += 1
            if len(sys.argv) > 2:
                print(name, e)
    print(ok, 'units translated', bad, 'refused')
    for k, v in why.most_common(40):
        print(v, k)


# ----------------------------------------------------------------------------------------------
# GENBBsub initialisation as a spec function (C06): the character tests are evaluated for a CONCRETE nuclide name,
# everything else (level table, Q-values, consistency rules) is rendered like any other unit.
# ----------------------------------------------------------------------------------------------

def _eval_char_conditions(text, chn, chnuclide):
    """replace  chn(a:b).eq.'X'  and  chnuclide.eq.'X'  by .true./.false. for concrete strings"""
    def sub1(m):
        a, b, lit = int(m.group(1)), int(m.group(2)), m.group(3)
        s = (chn + ' ' * 40)[a - 1:b]
        return '.true.' if s.rstrip() == lit.rstrip() and len(lit) <= (b - a + 1) else ('.true.' if s == (lit + ' ' * 40)[:b - a + 1] else '.false.')

    def sub2(m):
        return '.true.' if chnuclide.rstrip() == m.group(1).rstrip() else '.false.'
    t = re.sub(r"chn\((\d+):(\d+)\)\.eq\.'([^']*)'", sub1, text)
    t = re.sub(r"chnuclide\.eq\.'([^']*)'", sub2, t)
    return t


def genbb_init_function(prog, name):
    """reference GENBBsub, i2bbs=1, istart=-1, for the concrete nuclide name -> bx2c Func
       ref_genbbinit(ilevel, modebb, &ier, &qbb, &zdbb, &adbb, &ek, &levele, &itrans02)"""
    u = prog.units.get('genbbsub')
    if u is None:
        raise Unsupported('GENBBsub not found in the reference')
    body = u.body
    # locate the DBD block:  if(i2bbs.eq.1) then ... endif   and the quadruple-beta check that follows it
    start = None
    for k, (lab, t, n) in enumerate(body):
        if re.match(r'^if\s*\(\s*i2bbs\.eq\.1\s*\)\s*then$', t):
            start = k
            break
    if start is None:
        raise Unsupported('GENBBsub: DBD block not found')
    marks, end = prog.find_block_end(body, start, len(body))
    stop = None
    for k in range(end + 1, len(body)):
        if re.match(r'^if\s*\(\s*i2bbs\.eq\.2\s*\)\s*then$', body[k][1]):
            stop = k
            break
    if stop is None:
        raise Unsupported('GENBBsub: background block not found')
    region = body[start + 1:end] + body[end + 1:stop]
    # which branch of the isotope chain matches? (the chain is the first block-if of the region)
    chn = name
    canonical = name
    stmts = []
    first = True
    k = 0
    while k < len(region):
        lab, t, n = region[k]
        if first and re.match(r"^if\s*\(.*chn\(", t):
            first = False
            mk, e = prog.find_block_end(region, k, len(region))
            bounds = [k] + mk + [e]
            taken = None
            for bi in range(len(bounds) - 1):
                head = region[bounds[bi]][1]
                if head == 'else':
                    taken = bi
                    break
                c = _eval_char_conditions(head, chn, canonical)
                if 'chn(' in c or 'chart(' in c:
                    continue
                # evaluate the (now purely logical) condition
                expr = re.sub(r'^(else\s*)?if\s*\(', '(', c)
                expr = re.sub(r'\)\s*then$', ')', expr)
                py = expr.replace('.true.', ' True ').replace('.false.', ' False ').replace('.and.', ' and ').replace('.or.', ' or ').replace('.not.', ' not ')
                try:
                    val = eval(py, {'__builtins__': {}}, {})
                except Exception:
                    raise Unsupported('GENBBsub: cannot evaluate isotope test: ' + head[:80])
                if val:
                    taken = bi
                    break
            if taken is None:
                raise Unsupported('GENBBsub: no branch for ' + name)
            blk = region[bounds[taken] + 1:bounds[taken + 1]]
            for (l2, t2, n2) in blk:
                m = re.match(r"^chnuclide\s*=\s*'([^']*)'$", t2)
                if m:
                    canonical = m.group(1)
                    continue
                stmts.append((l2, t2, n2))
            k = e + 1
            continue
        stmts.append((lab, t, n))
        k += 1
    out = []
    for (lab, t, n) in stmts:
        if re.match(r'^(chdspin|chmodebb|chn|chnuclide)\s*=', t) or re.match(r"^if\s*\(.*\)\s*(chdspin|chmodebb)\s*=", t):
            continue
        t2 = _eval_char_conditions(t, chn, canonical)
        if re.search(r"'", t2) and not re.match(r'^(print|write)', t2) and not re.match(r'^if\s*\(.*\)\s*print', t2) and not t2.startswith('format'):
            raise Unsupported('GENBBsub: character operation left in: ' + t2[:80])
        out.append((lab, t2, n))
    nu = Unit()
    nu.kind = 'subroutine'
    nu.name = 'genbbinit'
    nu.args = ['ilevel', 'modebb', 'ier', 'qbb', 'zdbb', 'adbb', 'ek', 'levele', 'itrans02']
    nu.stmts = out
    nu.body = out
    nu.types = dict(u.types)
    nu.types['levele'] = 'i'
    nu.arrays = {}
    prog.units['genbbinit'] = nu
    prog.common_of['genbbinit'] = {k: v for k, v in prog.common_of['genbbsub'].items() if k in ('pi', 'emass', 'datamass')}
    prog.common_arrays['genbbinit'] = {k: v for k, v in prog.common_arrays['genbbsub'].items() if k in ('datamass',)}
    prog.assigned_dummies['genbbinit'] = {'ier', 'qbb', 'zdbb', 'adbb', 'ek', 'levele', 'itrans02'}
    f = prog.translate('genbbinit')
    f.canonical = canonical
    return f

// Demonstration (real library code) of the two decay0_bb defects found by the relational obligations rel/bb/label_1/*.
//   A. first-electron bin lookup: reference  k=nint(e1*1000.) ; if(spmax*rnd1(d).gt.spthe1(k)) go to 1
//   B. mode 18 angular coefficient: reference  b_eta= ... -8.*chip_P**2/9.
// Build and run: see run.sh.  Exit status 0 = the library behaves as the reference formula says, 1 = it does not.
#include <bxdecay0/bb.h>
#include <bxdecay0/event.h>
#include <bxdecay0/i_random.h>
#include <cmath>
#include <cstdio>
#include <vector>

struct scripted : public bxdecay0::i_random {
  std::vector<double> u;
  std::size_t n = 0;
  unsigned long long s = 12345;
  double operator()() override
  {
    // after the script: a small LCG, so that rejection loops terminate
    s = s * 6364136223846793005ULL + 1442695040888963407ULL;
    double v = n < u.size() ? u[n] : (double)(s >> 11) / 9007199254740992.0;
    n++;
    return v;
  }
};

static void setup(bxdecay0::bbpars & p, int mode)
{
  p.reset();
  p.modebb  = mode;
  p.Qbb     = 3.034; // Mo100
  p.Edlevel = 0.;
  p.EK      = 0.;
  p.Zdbb    = 44.;
  p.Adbb    = 100.;
  p.ebb1    = 0.;
  p.ebb2    = 3.034;
  p.istartbb = 0;
  p.chi_GTw = 0.9; p.chi_Fw = -0.3; p.chip_GT = 1.1; p.chip_F = -0.35; p.chip_T = 0.1; p.chip_P = 0.5; p.chip_R = 1.2;
}

int main()
{
  int bad = 0;
  {
    // A: mode 1.  First call initialises spthe1/spmax (and generates one event with neutral deviates).
    bxdecay0::bbpars p;
    setup(p, 1);
    scripted g0;
    bxdecay0::event ev0;
    bxdecay0::decay0_bb(g0, ev0, &p);
    // choose e1 = 2.9007 MeV (falling edge of the spectrum): nint -> bin 2901, truncation -> bin 2900
    double e1   = 2.9007;
    int knint   = (int)std::lround(e1 * 1000.);
    int ktrunc  = (int)(e1 * 1000.);
    double slo  = p.spthe1[knint - 1], shi = p.spthe1[ktrunc - 1];
    double mid  = 0.5 * (slo + shi);
    scripted g;
    g.u = {e1 / p.ebb2, mid / p.spmax};   // spthe1(nint) < spmax*u2 < spthe1(trunc): the reference rejects this e1
    bxdecay0::event ev;
    bxdecay0::decay0_bb(g, ev, &p);
    // the reference rejects and draws a new e1 (deviate 3 = 0.5 -> e1 = 1.517): so the event's first electron is NOT 2.9007
    double px = ev.get_particles()[0].get_px(), py = ev.get_particles()[0].get_py(), pz = ev.get_particles()[0].get_pz();
    double pp = std::sqrt(px * px + py * py + pz * pz);
    double ekin = std::sqrt(pp * pp + 0.51099906 * 0.51099906) - 0.51099906;
    std::printf("A: spthe1[nint=%d]=%.6g spthe1[trunc=%d]=%.6g spmax*u2=%.6g -> reference rejects e1=%.4f\n", knint, slo, ktrunc, shi, mid, e1);
    std::printf("A: library emitted first electron with kinetic energy %.4f MeV after %zu deviates\n", ekin, g.n);
    if (std::fabs(ekin - e1) < 1e-6) {
      std::printf("A: MISMATCH: the library accepted the energy the reference rejects\n");
      bad = 1;
    }
  }
  {
    // B: mode 18.  With the deviates below the angular rejection test  romaxt*u > a + b*ctet  decides differently for
    // the reference's b and for the b computed with pow(chip_P, 2/9.).
    bxdecay0::bbpars p;
    setup(p, 18);
    scripted g0;
    bxdecay0::event ev0;
    bxdecay0::decay0_bb(g0, ev0, &p);
    const double emass = 0.51099906;
    double e0 = p.e0, e1 = 1.5, e2 = e0 - e1;
    double p1 = std::sqrt(e1 * (e1 + 2. * emass)), p2 = std::sqrt(e2 * (e2 + 2. * emass));
    double b1 = p1 / (e1 + emass), b2 = p2 / (e2 + emass);
    double et0 = e0 / emass + 1., et1 = e1 / emass + 1., et2 = e2 / emass + 1.;
    double a1 = (et1 * et2 - 1.) * (et1 - et2) * (et1 - et2) / (2. * et1 * et2);
    double a2 = -2. * (et1 - et2) * (et1 - et2) / (9. * et1 * et2);
    double a3 = 2. * (et1 * et2 - 1.) / (81. * et1 * et2);
    double r  = 3.107526e-3 * std::pow(p.Adbb, 1. / 3.);
    double rksi = 3. / 137.036 * p.Zdbb + r * et0;
    double a4 = 8. * (et1 * et2 + 1.) / (r * r * et1 * et2);
    double a5 = -8. * (rksi * (et1 * et2 + 1.) - 2. * r * et0) / (3. * r * r * et1 * et2);
    double a6 = 2. * ((rksi * rksi + 4. * r * r) * (et1 * et2 + 1.) - 4. * rksi * r * et0) / (9. * r * r * et1 * et2);
    double chi_1minus = p.chip_GT - 3. * p.chip_F - 6. * p.chip_T;
    double chi_2plus  = p.chi_GTw + p.chi_Fw - chi_1minus / 9.;
    double a_eta = a1 * chi_2plus * chi_2plus + a2 * chi_2plus * chi_1minus + a3 * chi_1minus * chi_1minus + a4 * p.chip_R * p.chip_R
                   + a5 * p.chip_R * p.chip_P + a6 * p.chip_P * p.chip_P;
    double common = (et1 - et2) * (et1 - et2) * chi_2plus * chi_2plus / 2. - 4. * chi_1minus * chi_1minus / 81.
                    + 8. * std::pow(rksi * p.chip_P / 6. - p.chip_R, 2) / (r * r);
    double b_ref  = (common - 8. * p.chip_P * p.chip_P / 9.) / a_eta * b1 * b2;          // reference
    double b_port = (common - 8. * std::pow(p.chip_P, 2 / 9.)) / a_eta * b1 * b2;        // what the port computed
    std::printf("B: chip_P=%g  b(reference)=%.9g  b(pow(chip_P,2/9.))=%.9g\n", p.chip_P, b_ref, b_port);
    // deviates: e1 accepted; phi1-phi2 = pi, ctet1 = ctet2 = 0 -> ctet = -1 ; choose the rejection deviate between the two tests
    double a = 1.;
    double t_ref = (a - b_ref) / (a + std::fabs(b_ref)), t_port = (a - b_port) / (a + std::fabs(b_port));
    double urej = 0.5 * (t_ref + t_port);
    scripted g;
    // e1 = ebb2*u ; accept (u=0) ; phi1 u=.5, ctet1 u=.5 -> 0, phi2 u=0, ctet2 u=.5 -> 0 ; rejection deviate ; a second round that is always accepted
    g.u = {e1 / p.ebb2, 0.0, 0.5, 0.5, 0.0, 0.5, urej, 0.5, 0.5, 0.0, 0.5, 0.0};
    bxdecay0::event ev;
    bxdecay0::decay0_bb(g, ev, &p);
    bool ref_rejects = urej * (a + std::fabs(b_ref)) > a - b_ref;
    std::size_t expected = ref_rejects ? 12 : 7;
    std::printf("B: accept thresholds: reference %.9g, port formula %.9g, deviate %.9g -> reference %s the first angle pair\n", t_ref, t_port, urej,
                ref_rejects ? "rejects" : "accepts");
    std::printf("B: library consumed %zu deviates (reference: %zu)\n", g.n, expected);
    if (g.n != expected) {
      std::printf("B: MISMATCH: the angular rejection test of the library differs from the reference's\n");
      bad = 1;
    }
  }
  return bad;
}

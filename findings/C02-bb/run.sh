#!/bin/sh
# usage: run.sh [repo-dir]   (needs a built library in <repo-dir>/_build; default /repo)
set -e
R=${1:-/repo}
D=$(mktemp -d)
trap 'rm -rf "$D"' EXIT
c++ -std=c++11 -O1 -I"$R" -I"$R/_build" "$(dirname "$0")/demo.cc" -o "$D/demo" -L"$R/_build" -lBxDecay0 -Wl,-rpath,"$R/_build"
BXDECAY0_RESOURCE_DIR="$R/resources" "$D/demo"
